#!/usr/bin/env python3
"""Regenerates MANIFEST.json from the table below (kept in one place so it stays valid)."""
import json, subprocess

NA = {
 "C01": "type soundness is a statement about (program, input) pairs of a deterministic compiler+VM; no schedule, clock, fault or interleaving enters it; deciding it needs typed program generation (input generation), outside deterministic simulation",
 "C02": "agreement of the sequential core with a reference evaluator is a pure function of the program; nothing for a simulator to schedule or break",
 "C07": "bytecode well-formedness is a static all-paths property of compiler output; it calls for an abstract-interpretation verifier, not executions under a scheduler",
 "C08": "a runtime type test is a table lookup determined by (value, type, program); no nondeterminism. The one slice that depends on arrival order (which message a typed receive takes) is exercised under C05, not claimed here",
 "C09": "assignability/overlap are pure relations on type graphs judged against value enumeration; no time, I/O or concurrency",
 "C12": "builtins are pure functions of their argument; boundary-value search is input generation (a builtin that panics is seen under C15 only if a scenario calls it)",
 "C16": "space use of a tail-recursive function is a deterministic function of (program, N) in one process; the time slice only shifts when deferred frees run and is not quantified over",
 "C17": "formatter properties are text -> text; no state, schedule or fault",
 "C18": "front-end totality is text -> result; no state, no schedule",
 "C19": "the dictionary is a sequential persistent structure written in Quiver; checking an operation history against a host map is model-based testing with no concurrency, clock or fault",
 "C20": "exact arithmetic of a pure library; no schedule, clock or fault",
}

CLAIMED = {
 "C03": dict(
   text="Seeded search over schedules and configurations: generated confluent programs are executed by the real Worker/Environment/Repl code under a simulated transport, clock and scheduler; every variant (worker count 1-6, time slice 1..1000, scheduler kind, message visibility prefixes, JSON transport, polling vs event-driven drive) must give the model's value and the reference run's per-process results, never fail, hang (quiescence without result) or crash a worker, and must finish within a step bound on the fair fault-free tail. Sampling, not proof.",
   ref="DESIGN.md §6 C03",
   note="Trusts: the simulator's atomic-turn + prefix-visibility model of real threads (DESIGN §3.1), the scenario generator's host-side model of expected values, the SimTransport's FIFO/reliable channel model. The native mpsc transport, io_uring backend and CLI glue run as stubs.",
   technique="deterministic simulation: seeded schedule/configuration search with reference-run and model comparison, bounded liveness on a fair tail"),
}
CLAIMED["C04"] = dict(
   text="Seeded search over interleavings of sends, spawns, completions, awaits and deliveries: generated message-passing scenarios (fan-in/out, pipelines, request/reply, filter and timeout-polling receivers, sends racing spawn, sends to finished processes) run on the real runtime under the simulated transport; receivers return their own receive logs, which must contain every sent message exactly once and each sender's messages in send order; after every decision monitors check conservation of each unique payload across queues and mailboxes, in-transit per-sender order, one in-flight SpawnAction/NotifySpawn per process parked in spawning, and that no parked select is missing a completion nobody is going to deliver; quiescence without the client's result (event-driven drive included) is a lost wake-up. Sampling, not proof.",
   ref="DESIGN.md §6 C04",
   note="Trusts: the atomic-turn + prefix-visibility model, the monitors' reading of executor state through the verif accessors, scenario templates that are deadlock-free by construction (every receive has a matching send). Transport loss/duplication is not injected because the real channels cannot produce it.",
   technique="deterministic simulation: seeded interleaving search with history oracle (receive logs) and per-step conservation/FIFO/wake-up invariants")
CLAIMED["C15"] = dict(
   text="The injected fault is a process failure: a victim fails at a generated point (builtin domain errors, missing file, ownership violation, injected backend write error, spawn/send/nested-select inside a receive filter) inside a generated system of by-standers, direct and transitive single-source awaiters that await before, during or after the failure, and senders to the victim. Under every sampled schedule/configuration the by-standers and senders must end with their model results, every transitive awaiter with exactly the victim's error, the client with its value or that error; any panic or Err from Worker::step/Environment::step, any hang, and any abnormal child-process death is a violation. Pollers that listed the victim once in a non-blocking select and no longer await it when it fails (one already finished, one alive) must keep their normal results; out-of-domain calls of pure builtins and an effect result over the binary size limit are among the failure points; REPL sessions with ill-behaved lines (nil-cut lines, top-level tail calls, a polled process failing while the session sleeps) must survive. A process whose one select races the victim's failure against a message or timeout (also with an effect in flight) must end with its value or the victim's error, nothing else. Sampling, not proof.",
   ref="DESIGN.md §6 C15",
   note="Trusts: scenario templates and their host-side expectations, the SimBackend's model of open/read/write errors, the atomic-turn model. Only failure kinds in the template list are placed (32 out-of-domain builtin calls taken from a probe of 4084 edge calls that found no panic); systematic builtin boundary-value search stays out of scope (C12, n/a).",
   technique="deterministic simulation with fault injection (process failure as the fault): seeded interleaving search with per-process outcome oracle and panic/Err/hang detection")
CLAIMED["C14"] = dict(
   text="Generated systems of processes open files on a simulated backend, use them, transfer the handles by every documented route (bare message, nested in a tuple, captured by a closure sent in a message, spawn argument, spawn capture), try to use them after giving them away, leave them in mailboxes, and terminate normally or by failure, awaited or not, while the backend injects submit/completion errors, short I/O and delayed/reordered completions. After every environment turn a model of the documented ownership rules is replayed over the recorded history (events in the order the environment consumed them, calls the backend received): a request on an open resource reaches the backend iff it comes from the model owner; a rejected requester ends with a runtime error; no automatic close while the model owner is alive; the environment's table equals the model for every open resource; at quiescence every resource whose owner has terminated has been closed. Sampling, not proof. The known finding (owner never awaited by anybody => never closed) is keyed by history (no await query ever named the owner) and does not mask an owner that was awaited but whose completion was never reported, nor one that was reported and not closed.",
   ref="DESIGN.md §6 C14",
   note="Trusts: SimBackend's model of the io_uring backend (open/close immediate, read/write/flush asynchronous), the history model of the ownership rules, the atomic-turn model. Not judged (statement silent): a handle delivered to a process whose termination was already reported; operations on closed resources.",
   technique="deterministic simulation with fault injection: seeded interleaving + backend-fault search with a reference model of ownership replayed over the recorded history")
CLAIMED["C06"] = dict(
   text="Programs dominated by heap binaries (ropes, repeats, slices, literals) store them in locals and closures, pass them as spawn captures and arguments together, send them bare / in tuples / inside function captures, await them once, twice and from several processes, filter them with closures that captured a heap binary, leave them in mailboxes, drop them in server loops, hold them across reclamation cycles and rebind them across REPL lines (compaction, orphan release). Under schedules weighted to 1-3 instruction slices, after every worker turn the real executor's accounting is checked: count>0 <=> reachable (check_refcounts), no reachable slot reclaimed, free pool well-formed, no slot that is neither reachable nor reclaimed nor queued for reclamation, and a shadow copy of every live slot keeps its bytes until the slot is reclaimed; the client's result must equal the model bytes. A coverage matrix of root kinds (stack, locals, mailbox, result, select sources/receiving, awaiting, closure, tuple, constant cache, in-flight spawn/message, REPL compaction, slot reuse) must be non-zero or the check fails as blind. Sampling, not proof.",
   ref="DESIGN.md §6 C06",
   note="Trusts: Executor::reachable_heap_indices as the definition of 'reachable' (the runtime's own tracing oracle), the verif accessors, the episode templates' byte model. 'Only via select_state.receiving' cannot exist at a turn boundary (the mailbox copy is still there) and is reported, not required.",
   technique="deterministic simulation: seeded interleaving/quantum search with per-turn accounting invariants, shadow-copy oracle and byte model")
CLAIMED["C05"] = dict(
   text="A subject process performs 1-3 generated selects (awaited children that finish, fail or never finish; typed receives with and without filter bodies, some long enough to span many turns at quantum 1; timeouts incl. 0; await-only races over 3-4 children) followed by zero-timeout drains, while a stimulus script sends unique typed messages, releases children and lets virtual time pass. After every turn of the subject's worker the monitor records what the subject could see (mailbox at slice start, results known, clock value, vector clock, whether its await exchange was complete); at the end an executable reference model of select judges every completion: the yielding source was ready and yielded the earliest message its filter accepts; no earlier-written source was ready (mailbox content, results known to the worker or contained in the select's own await snapshot, timeouts elapsed by the implementation's own clock values); a failed child is a source like any other: the subject dies of it only if it is listed in the current select and is the first ready source in written order, never because of a process listed only in an earlier, completed select; a timeout never yields nil earlier than its duration of true virtual time after the select was entered (backward wall-clock steps included); the drains check that untaken messages kept their order. Sampling, not proof.",
   ref="DESIGN.md §6 C05, §4.1",
   note="Trusts: the host-side filter/type model of the generated sources, the snapshot criterion for remote completions (finished before its worker answered this select's query, or before the select was entered), the simulated clock.",
   technique="deterministic simulation: seeded interleaving + virtual-clock search with an executable reference model of select evaluated over the recorded history")
CLAIMED["C11"] = dict(
   text="A generated list of steps (int/binary bindings, shadowing, destructuring, named tuples and field access, functions and closures capturing earlier bindings incl. binaries, type aliases, uses of the flowing previous result, processes that outlive their line and are awaited on a later one, occasional nil-valued steps and a final runtime error) is evaluated (a) prefix by prefix as ONE program in a fresh environment - the reference values and variables - and (b) as a REPL session under a random partition into lines with rejected lines (parse and compile errors) inserted in between, an optional second session sharing the environment, and variable reads at random boundaries, each under a sampled schedule/configuration (1-4 workers, quantum down to 1, JSON transport, both drive modes) with the heap-accounting monitors on. Every accepted line must yield the value of the corresponding one-program prefix (until the one-program form short-circuits on nil; after that, bindings made before the stopping step must still read their values), every rejected line must be rejected and leave values and variables (names, formatted types, values) as in the one-program run. Two known findings (static facts established by a fallible pattern step are not carried to later lines) are keyed by the step list and printed as KNOWN-FINDING. Sampling, not proof.",
   ref="DESIGN.md §6 C11",
   note="Trusts: the step generator producing well-typed programs (a generated prefix the front end rejects is a harness error), the harness re-implementation of the CLI's REPL loop (request_process_types -> Repl::evaluate -> poll). Type aliases are hoisted to the front of the one-program form because the parser accepts alias declarations only before the first step.",
   technique="deterministic simulation: history (line partition + rejected lines) and schedule search against one-shot reference executions, with per-turn heap invariants")
CLAIMED["C13"] = dict(
   text="Scoped to what a simulator can vary: placement of minting processes on 1-6 workers, values crossing process and worker boundaries, and program updates between construction and comparison. Pairs from a small value universe (small/big ints, constant vs heap-rope vs sliced binaries, named/unnamed/labelled/nested tuples incl. spread-built and generic-returned ones, Ok, closures with equal and different captures, byte-equal tilings of different unit length) are built locally on one side and, on the other, arrive as a process result, in a message to a comparer that captured the first value, as a spawn capture, from an in-memory module, or are built on a later REPL line after a same-shape tuple with different field types was merged (canonical-shape table recomputed). Both orders and the reflexive comparison are evaluated; refs minted by several processes and by the REPL process across lines are compared pairwise and returned (one scenario in twenty mints more than 2^16 refs on one worker); handles of the same process obtained by the spawner, by `&.` at several call depths, after a tail call and on different REPL lines must be equal, handles of different processes unequal. The verdict vector must equal the model's structural equality under every sampled placement and schedule, and all refs must be pairwise distinct. Sampling; no claim to cover the space of syntactic construction paths (that part is a pure function).",
   ref="DESIGN.md §6 C13",
   note="Trusts: the value universe's host-side equality keys. Verdicts are captured as `[v] = [a =&b]`; a plain `v = a =&b` binding followed by further steps is avoided because the compiler narrows `a` after a failing pinned match and drops later steps (sequential-core behaviour, outside this property's simulated scope; noted in DESIGN.md).",
   technique="deterministic simulation: placement/schedule search with a structural-equality model over values transported across process, worker and program-update boundaries")
CLAIMED["C10"] = dict(
   text="Scoped: what simulation decides is the merge leg - Environment::merge_bytecode is a stateful, history-dependent remapping shipped incrementally to every worker, possibly while processes compiled against earlier states are running. A subject program (union dispatch, recursive types, partial types, closures with binary captures, typed-receive processes, a helper record, C03's confluent process family) is run as compiled in a fresh environment (reference) and then under variants that draw a history of 0-6 previously merged programs and second-session REPL lines (other tuple shapes, same-named tuples with other field types, other constants/builtins), some still running at merge time, merges landing while the subject runs, plus - as per-run configuration riding on the same oracle - the load path (as compiled / tree-shaken / JSON round trip / REPL) and helpers inlined vs imported from an in-memory module, all under sampled schedules. The subject's canonical result must equal the reference, Bytecode must survive the JSON round trip unchanged, and at the end every worker's program tables must be index-aligned with and equal to the environment's. Sampling, not proof; tree-shake/serde/import on their own are pure functions and are not claimed as decided by this technique.",
   ref="DESIGN.md §6 C10",
   note="Trusts: the reference run (as compiled, fresh environment, fair schedule) as ground truth, the harness re-implementation of `quiv run`/`quiv compile`. The evidence reports history-leg and configuration-leg run counts separately.",
   technique="deterministic simulation: merge-history and schedule search with a reference execution; packaging options as sampled configuration")
PENDING = {}

def main():
    checks = []
    for pid, c in sorted(CLAIMED.items()):
        checks.append({
            "property_id": pid,
            "quick_cmd": f"./check {pid} quick",
            "thorough_cmd": f"./check {pid} thorough",
            "evidence_file": f"/verif/evidence/{pid}.json",
            "replay_cmd_template": "./check replay {path}",
            "engine": "qsim",
            "level_claimed": {"category": "exploration", "text": c["text"], "design_ref": c["ref"]},
            "level_note": c["note"],
            "technique": c["technique"],
        })
    na = [{"property_id": k, "reason": v} for k, v in sorted(NA.items())]
    for k, v in sorted(PENDING.items()):
        na.append({"property_id": k, "reason": v})
    hooks_commits = subprocess.run(["git", "-C", "/repo", "log", "--format=%H", "--grep=^verif hooks"], capture_output=True, text=True).stdout.split()
    m = {
        "version": 1,
        "setup_cmd": "cd /verif/sim && CARGO_NET_OFFLINE=true cargo build --release --offline",
        "hooks": {
            "guard": "verif",
            "enable": "cargo feature `verif` on quiver-core and quiver-environment, enabled by /verif/sim/Cargo.toml path dependencies (features = [\"verif\"]); nothing in /repo enables it",
            "baseline_off_cmd": "cd /repo && cargo nextest run --workspace --no-fail-fast --tool-config-file pb:/w/lib/nextest.toml --profile pb --test-threads 8 --offline || cargo test --workspace --no-fail-fast --offline",
            "source_commits": hooks_commits,
            "add_only": True,
        },
        "engines": [{
            "name": "qsim",
            "path": "/verif/sim",
            "serves_properties": sorted(CLAIMED.keys()),
            "kind_free_text": "deterministic simulator with fault injection: real quiver Worker/Environment/Repl/compiler driven single-threaded through the repo's transport traits by a seeded scheduler; simulated transport, clock, effect backend, HashMap seeds; replay files with explicit decision lists; ddmin minimisation",
        }],
        "checks": checks,
        "not_applicable": na,
        "notes": "All checks: ./check <ID> quick|thorough (rebuilds /verif/sim against /repo's working tree with feature verif). VERIF_SEED selects the base seed (default 1). Exit 0 held / 1 VIOLATION / 2 harness error. Known findings: /verif/KNOWN_FINDINGS.txt. Design: /verif/DESIGN.md.",
    }
    json.dump(m, open("/verif/MANIFEST.json", "w"), indent=1)
    print("wrote MANIFEST.json with", len(checks), "checks,", len(na), "not applicable")

if __name__ == "__main__":
    main()
