#!/bin/bash
# Apply the reverse patch of every repository fix (regress/reverts/<commit>.diff), one at a time, in a
# scratch worktree of /repo HEAD and run the quick tier of the check the fix was recorded under.
# usage: [VERIF_SEED=n] tools/revert_matrix.sh > /tmp/reverts.txt
for c in 0561b74:C03 327964c:C06 beb5cd3:C06 bfce49a:C06 6b87c43:C05 4ea1ed0:C05 9041eb8:C11 c65da53:C15 2a053ef:C15 7137d85:C06 32398cf:C15 32398cf:C05 8b69bad:C15 ab33f81:C13 be60470:C15 987e884:C15 c3de485:C14 659c7d9:C05 7ecc7f2:C03 7ecc7f2:C10 f34129b:C10 a5abd59:C11 36d53b2:C11 4f73e3c:C15 4b1d141:C06 6d81a21:C15 9eaae08:C15 e8f6822:C15 cb7a60c:C13 71877e2:C13 93d1e9a:C11 25eedce:C06 44bf9a6:C11 ecbebbd:C03 9d02cb2:C11; do
  h=${c%%:*}; P=${c##*:}
  echo "== revert $h -> $P"
  /verif/tools/scratch_check.sh rv$h /verif/regress/reverts/$h.diff HEAD $P 2>&1 | grep -E "key=|quick:|error|BUILD" | cut -c1-260
done
echo DONE
