#!/bin/bash
# Detection matrix: every seeded change x every check's quick tier (scratch worktrees, /repo untouched).
OUT=${MATRIX_OUT:-/tmp/matrix.txt}; : > $OUT
for d in /verif/seeded/${MATRIX_GLOB:-*_m?}/; do
  n=$(basename $d)
  # changes that later repository fixes made harmless (meta.json status) are listed, not run
  if grep -q '"status": "harmless-on-HEAD"' $d/meta.json 2>/dev/null; then echo "== $n" >> $OUT; echo "SKIPPED harmless-on-HEAD" >> $OUT; continue; fi
  echo "== $n" >> $OUT
  /verif/tools/scratch_check.sh mx$n $d/patch.diff HEAD C03 C04 C05 C06 C10 C11 C13 C14 C15 2>&1 | grep -E "quick:|key=" | cut -c1-260 >> $OUT
done
echo DONE >> $OUT
