#!/bin/bash
# Detection matrix: every seeded change x every check's quick tier (scratch worktrees, /repo untouched).
OUT=${MATRIX_OUT:-/tmp/matrix.txt}; : > $OUT
for d in /verif/seeded/${MATRIX_GLOB:-*_m?}/; do
  n=$(basename $d)
  echo "== $n" >> $OUT
  /verif/tools/scratch_check.sh mx$n $d/patch.diff HEAD C03 C04 C05 C06 C10 C11 C13 C14 C15 2>&1 | grep -E "quick:|key=" | cut -c1-260 >> $OUT
done
echo DONE >> $OUT
