#!/usr/bin/env python3
"""Turn the output of tools/matrix.sh (one or more files) into seeded/RESULTS.md.
usage: matrix_report.py <matrix.txt>... > /verif/seeded/RESULTS.md"""
import json, os, re, sys

PROPS = ["C03", "C04", "C05", "C06", "C10", "C11", "C13", "C14", "C15"]
rows = {}
skipped = set()
# keys of the known findings are never counted as "reported" (some matrix runs were made with a copy of
# the known-findings file under another name, so the simulator printed them as violations)
KNOWN = set(re.findall(r"^finding: property=\S+ key=(\S+)", open("/verif/KNOWN_FINDINGS.txt").read(), re.M))
for path in sys.argv[1:]:
    cur = None
    keys = {}
    for line in open(path):
        line = line.rstrip("\n")
        m = re.match(r"^== (\S+)", line)
        if m:
            cur = m.group(1)
            rows[cur] = {p: None for p in PROPS}
            keys = {}
            continue
        if cur is None:
            continue
        if line.startswith("SKIPPED"):
            rows[cur] = {p: ["(not run: " + line.split(" ", 1)[1] + ")"] if p == cur.split("_")[0] else [] for p in PROPS}
            skipped.add(cur)
            continue
        m = re.match(r"^\s+key=(C\d\d)/(\S+) ::", line)
        if m:
            if f"{m.group(1)}/{m.group(2)}" not in KNOWN:
                keys.setdefault(m.group(1), set()).add(m.group(2))
            continue
        m = re.match(r"^(C\d\d) quick: .*; (\d+) violation key", line)
        if m:
            p = m.group(1)
            rows[cur][p] = sorted(keys.get(p, set()))
            keys.pop(p, None)

def meta(name):
    try:
        return json.load(open(f"/verif/seeded/{name}/meta.json"))
    except Exception:
        return {}

# meta.json is authoritative for changes that later repository fixes made harmless, also when the
# matrix run predates that verdict
for name in list(rows):
    if meta(name).get("status") == "harmless-on-HEAD":
        skipped.add(name)

print("# Seeded changes: which check reports which change\n")
print("Each directory `/verif/seeded/<ID>_m<k>/` holds a property-breaking change written by a sub-agent that saw only the property text and a scratch worktree of /repo: `patch.diff` (applies to /repo HEAD), the demonstration (`*.rs`, `run_demo.sh`), the agent's `README.md`, `confirm.log` (our own confirmation: demo passes without the change, fails with it, the whole existing suite passes with it) and `meta.json` (what it breaks, what it needs in order to manifest, what we ran). `_m1`/`_m2` are the first round, `_m3` the second, `_m4` the third, `_m5` the fourth and `_m6` the fifth (agents were told which mechanisms had been used already).\n")
print("Matrix below: every change applied in a scratch worktree of /repo HEAD (`tools/scratch_check.sh`, driven by `tools/matrix.sh`), every check's quick tier run against it (VERIF_SEED=1). The rows were produced over the last day of the work, each at the /repo HEAD of its time (e8f6822 ... ecbebbd: repository fixes kept arriving), with the simulator as it stood then; rows whose patch stopped applying after a fix were rebased and re-run, and every patch was checked to apply to the final HEAD. A cell lists the classification keys reported (`-` = the check stayed green, `?` = no run recorded). The target column is marked with `*`. KNOWN-FINDING keys are omitted.\n")
print("| change | " + " | ".join(PROPS) + " |")
print("|---|" + "---|" * len(PROPS))
missed = []
for name in sorted(rows):
    tgt = name.split("_")[0]
    cells = []
    for p in PROPS:
        k = rows[name][p]
        c = "?" if k is None else ("-" if not k else ", ".join(k))
        if p == tgt and name in skipped and not (k and k[0].startswith("(not run")):
            c = "(harmless on HEAD) " + c
        if p == tgt:
            c = f"**{c}** *"
            if not k and name not in skipped:
                missed.append(name)
        cells.append(c)
    print(f"| {name} | " + " | ".join(cells) + " |")
print()
n = len(rows) - len(skipped)
if skipped:
    print(f"Made harmless by a later repository fix (see `note_after_later_fixes` in meta.json; their demonstrations no longer fail with the patch applied to HEAD) and therefore not counted: {', '.join(sorted(skipped))}.\n")
if missed:
    print(f"{n - len(missed)} of {n} changes are reported by the quick tier of the check they target; not reported: {', '.join(missed)}.")
else:
    print(f"All {n} changes are reported by the quick tier of the check they target.")
print("\n## What each change needed, and what the check needed to see it\n")
for name in sorted(rows):
    m = meta(name)
    if not m:
        continue
    print(f"- **{name}** ({m.get('property_broken')}): {m.get('change')}. Needs: {m.get('needs_to_manifest')}." + (f" Detection: {m['caught_by']}." if m.get("caught_by") else ""))
