#!/bin/bash
# Confirm a sub-agent's seeded change with the mutant's OWN run_demo.sh:
#   demo passes on the clean worktree, fails with the patch; the whole existing suite passes with the patch.
# usage: confirm_mutant2.sh <worktree> <log>
set -u
WT=$1; LOG=$2; D=$WT/_mutants/m1
cd "$WT" || exit 2
git checkout -q -- . 2>/dev/null
: > "$LOG"
echo "### demo WITHOUT the change (run_demo.sh)" >>"$LOG"; bash "$D/run_demo.sh" >>"$LOG" 2>&1; WITHOUT=$?
git apply "$D/patch.diff" || { echo "$WT: patch does not apply"; exit 2; }
echo "### demo WITH the change (run_demo.sh)" >>"$LOG"; bash "$D/run_demo.sh" >>"$LOG" 2>&1; WITH=$?
echo "### full suite WITH the change" >>"$LOG"
timeout 1800 cargo nextest run --workspace --no-fail-fast --test-threads 6 --offline --retries 3 >>"$LOG" 2>&1; SUITE=$?
SUMMARY=$(grep -E "^\s+Summary" "$LOG" | tail -1)
git apply -R "$D/patch.diff"
git checkout -q -- . 2>/dev/null
echo "$(basename $WT): demo_without_rc=$WITHOUT (want 0) demo_with_rc=$WITH (want !=0) suite_rc=$SUITE (want 0) $SUMMARY"
