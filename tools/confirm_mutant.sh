#!/bin/bash
# Confirm a sub-agent's seeded change in its scratch worktree:
#   demo passes on the clean tree, fails with the patch; the whole existing suite passes with the patch.
# usage: [WT_PREFIX=/tmp/w2_] confirm_mutant.sh <ID> <m1|m2>     (worktree $WT_PREFIX<ID>, deliverables in _mutants/<m>)
set -u
ID=$1; M=$2; WT=${WT_PREFIX:-/tmp/wt_}$ID; D=$WT/_mutants/$M; LOG=/tmp/confirm/${ID}_$M.log
cd "$WT" || exit 2
git checkout -q -- . 2>/dev/null
CRATE=quiver-tests; grep -q "quiver-environment/tests" "$D/run_demo.sh" && CRATE=quiver-environment
FEAT=""; grep -q -- "--features verif" "$D/run_demo.sh" && FEAT="--features verif"
DEMO=$(ls "$D"/*.rs | head -1); NAME=$(basename "$DEMO" .rs)
mkdir -p "$WT/$CRATE/tests"
run_demo() { cp "$DEMO" "$WT/$CRATE/tests/$NAME.rs"; timeout 900 cargo test -p $CRATE $FEAT --test "$NAME" --offline -- --test-threads 2 >>"$LOG" 2>&1; local rc=$?; rm -f "$WT/$CRATE/tests/$NAME.rs"; return $rc; }
: > "$LOG"
echo "### demo WITHOUT the change" >>"$LOG"; run_demo; WITHOUT=$?
git apply "$D/patch.diff" || { echo "$ID $M: patch does not apply"; exit 2; }
echo "### demo WITH the change" >>"$LOG"; run_demo; WITH=$?
echo "### full suite WITH the change" >>"$LOG"
timeout 1800 cargo nextest run --workspace --no-fail-fast --test-threads 6 --offline --retries 3 >>"$LOG" 2>&1; SUITE=$?
SUMMARY=$(grep -E "^\s+Summary" "$LOG" | tail -1)
git apply -R "$D/patch.diff"
git checkout -q -- . 2>/dev/null
echo "$ID $M: demo_without_rc=$WITHOUT (want 0) demo_with_rc=$WITH (want !=0) suite_rc=$SUITE (want 0) $SUMMARY"
