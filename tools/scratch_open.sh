#!/bin/bash
# Persistent variant of scratch_check.sh for iterating on a generator against a patched tree.
# usage: tools/scratch_open.sh <name> <patch|-> <rev>     -> prints the qsim binary path; re-run to resync /verif/sim and rebuild
#        tools/scratch_open.sh close <name>
set -u
if [ "$1" = close ]; then N=$2; git -C /repo worktree remove --force /tmp/so_$N; rm -rf /tmp/so_$N /tmp/so_${N}_sim /tmp/so_target_$N; exit 0; fi
NAME="$1"; PATCH="$2"; REV="$3"
WT=/tmp/so_$NAME; SIM=/tmp/so_${NAME}_sim
if [ ! -d "$WT" ]; then
  git -C /repo worktree add -q --detach "$WT" "$REV" || exit 2
  if [ "$PATCH" != "-" ]; then git -C "$WT" apply "$PATCH" || { echo "patch does not apply"; exit 2; }; fi
fi
mkdir -p "$SIM/out"
rsync -a --exclude target /verif/sim/ "$SIM/sim/"
sed -i "s#/repo/#$WT/#g" "$SIM/sim/Cargo.toml"
cp /verif/KNOWN_FINDINGS.txt "$SIM/out/"
( cd "$SIM/sim" && CARGO_TARGET_DIR=/tmp/so_target_$NAME CARGO_NET_OFFLINE=true cargo build --release --offline >"$SIM/build.log" 2>&1 ) || { echo "BUILD FAILED"; grep -E "^error" -A8 "$SIM/build.log" | head -30; exit 2; }
echo "QSIM_VERIF_DIR=$SIM/out /tmp/so_target_$NAME/release/qsim"
