#!/bin/bash
# Run checks against a scratch worktree of /repo with a patch applied, without touching /repo.
# usage: tools/scratch_check.sh <name> <patch.diff|-> <base-rev> <PROP> [<PROP>...]
#   name      scratch identifier (worktree /tmp/sc_<name>, sim copy /tmp/sc_<name>_sim)
#   patch     patch to apply with `git apply` ("-" for none)
#   base-rev  git revision of /repo to check out (e.g. HEAD, or a commit before a fix)
# Leaves nothing behind.
set -u
NAME="$1"; PATCH="$2"; REV="$3"; shift 3
WT=/tmp/sc_$NAME; SIM=/tmp/sc_${NAME}_sim
git -C /repo worktree remove --force "$WT" >/dev/null 2>&1
rm -rf "$WT" "$SIM"
git -C /repo worktree add -q --detach "$WT" "$REV" || exit 2
if [ "$PATCH" != "-" ]; then git -C "$WT" apply "$PATCH" || { echo "patch does not apply"; git -C /repo worktree remove --force "$WT"; exit 2; }; fi
mkdir -p "$SIM/out"
rsync -a --exclude target "${SIM_SRC:-/verif/sim}/" "$SIM/sim/"
[ -d /verif/pinned ] && rsync -a /verif/pinned/ "$SIM/pinned/" 2>/dev/null
sed -i "s#/repo/#$WT/#g" "$SIM/sim/Cargo.toml"
cp "${KNOWN_SRC:-/verif/KNOWN_FINDINGS.txt}" "$SIM/out/KNOWN_FINDINGS.txt"
( cd "$SIM/sim" && CARGO_TARGET_DIR=/tmp/sc_target_$NAME CARGO_NET_OFFLINE=true cargo build --release --offline >"$SIM/build.log" 2>&1 ) || { echo "BUILD FAILED"; grep -E "^error" -A8 "$SIM/build.log" | head -30; git -C /repo worktree remove --force "$WT"; rm -rf "$SIM" /tmp/sc_target_$NAME; exit 2; }
ulimit -v 25165824 2>/dev/null || true
RC=0
for P in "$@"; do
  QSIM_VERIF_DIR="$SIM/out" /tmp/sc_target_$NAME/release/qsim check "$P" "${TIER:-quick}" | grep -E "VIOLATION|key=|KNOWN|quick:|thorough:|HARNESS" | cut -c1-400
  [ "${PIPESTATUS[0]}" != "0" ] && RC=1
done
if [ -n "${KEEP_REPLAYS:-}" ]; then mkdir -p "$KEEP_REPLAYS"; cp -r "$SIM/out/replays/." "$KEEP_REPLAYS/" 2>/dev/null; fi
git -C /repo worktree remove --force "$WT"; rm -rf "$SIM" /tmp/sc_target_$NAME
exit $RC
