//! Simulated transport: the simulator owns every queue between the environment and the workers.
//! Reliable, per-channel FIFO, unbounded (what mpsc / postMessage give). Visibility of queued
//! messages at a `try_recv` is decided by the scheduler through per-step allowances.

use crate::rng::Fnv;
use quiver_environment::{Command, CommandReceiver, EnvironmentError, Event, EventSender, WorkerHandle};
use quiver_io::NativeEffect;
use std::collections::VecDeque;
use std::sync::{Arc, Mutex};

pub type E = NativeEffect;
pub type Cmd = Command<E>;
pub type Evt = Event<E>;

#[derive(Clone, Debug)]
pub enum Payload {
    Cmd(Cmd),
    Evt(Evt),
}

#[derive(Clone, Debug)]
pub struct MsgRec {
    pub id: usize,
    pub worker: usize,
    pub payload: Payload,
    /// decision index at which it was sent / received
    pub sent_at: u64,
    pub recv_at: Option<u64>,
    /// sender's vector clock at send time
    pub vc: Vec<u32>,
}

pub struct Shared {
    pub nworkers: usize,
    pub cmd_q: Vec<VecDeque<usize>>,
    pub evt_q: Vec<VecDeque<usize>>,
    pub cmd_allow: Vec<usize>,
    pub evt_allow: Vec<usize>,
    pub msgs: Vec<MsgRec>,
    pub json: bool,
    pub step: u64,
    /// 0 = environment/client thread, 1+i = worker i
    pub cur_actor: usize,
    pub vcs: Vec<Vec<u32>>,
    pub cur_sent: Vec<usize>,
    pub cur_recv: Vec<usize>,
    pub hash: Fnv,
    pub errors: Vec<String>,
    pub json_msgs: u64,
    pub log: Option<Vec<String>>,
}

pub type SharedRef = Arc<Mutex<Shared>>;

impl Shared {
    pub fn new(nworkers: usize, json: bool, keep_log: bool) -> SharedRef {
        Arc::new(Mutex::new(Shared {
            nworkers,
            cmd_q: vec![VecDeque::new(); nworkers],
            evt_q: vec![VecDeque::new(); nworkers],
            cmd_allow: vec![0; nworkers],
            evt_allow: vec![0; nworkers],
            msgs: Vec::new(),
            json,
            step: 0,
            cur_actor: 0,
            vcs: vec![vec![0; nworkers + 1]; nworkers + 1],
            cur_sent: Vec::new(),
            cur_recv: Vec::new(),
            hash: Fnv::default(),
            errors: Vec::new(),
            json_msgs: 0,
            log: if keep_log { Some(Vec::new()) } else { None },
        }))
    }

    pub fn begin_turn(&mut self, actor: usize) {
        self.cur_actor = actor;
        self.vcs[actor][actor] += 1;
        self.cur_sent.clear();
        self.cur_recv.clear();
    }

    fn record_send(&mut self, worker: usize, payload: Payload) -> usize {
        let payload = if self.json { self.json_roundtrip(payload) } else { payload };
        let id = self.msgs.len();
        let line = summarize(&payload);
        self.hash.u64(self.step);
        self.hash.u64(worker as u64);
        self.hash.str(&line);
        if let Some(log) = &mut self.log {
            log.push(format!("[{}] send#{} w{} {}", self.step, id, worker, line));
        }
        let vc = self.vcs[self.cur_actor].clone();
        self.msgs.push(MsgRec { id, worker, payload, sent_at: self.step, recv_at: None, vc });
        self.cur_sent.push(id);
        id
    }

    fn json_roundtrip(&mut self, payload: Payload) -> Payload {
        self.json_msgs += 1;
        match &payload {
            Payload::Cmd(c) => match serde_json::to_string(c).and_then(|s| serde_json::from_str::<Cmd>(&s)) {
                Ok(c2) => Payload::Cmd(c2),
                Err(e) => {
                    self.errors.push(format!("json round trip of command failed: {e}"));
                    payload
                }
            },
            Payload::Evt(c) => match serde_json::to_string(c).and_then(|s| serde_json::from_str::<Evt>(&s)) {
                Ok(c2) => Payload::Evt(c2),
                Err(e) => {
                    self.errors.push(format!("json round trip of event failed: {e}"));
                    payload
                }
            },
        }
    }

    fn record_recv(&mut self, id: usize) {
        self.msgs[id].recv_at = Some(self.step);
        let vc = self.msgs[id].vc.clone();
        let me = self.cur_actor;
        for (i, v) in vc.iter().enumerate() {
            if self.vcs[me][i] < *v {
                self.vcs[me][i] = *v;
            }
        }
        self.hash.u64(0xfeed);
        self.hash.u64(id as u64);
        if let Some(log) = &mut self.log {
            log.push(format!("[{}] recv#{} by a{}", self.step, id, me));
        }
        self.cur_recv.push(id);
    }

    pub fn pending_cmds(&self, w: usize) -> usize {
        self.cmd_q[w].len()
    }
    pub fn pending_evts(&self, w: usize) -> usize {
        self.evt_q[w].len()
    }
    pub fn all_empty(&self) -> bool {
        self.cmd_q.iter().all(|q| q.is_empty()) && self.evt_q.iter().all(|q| q.is_empty())
    }
    pub fn cmd(&self, id: usize) -> Option<&Cmd> {
        match &self.msgs[id].payload {
            Payload::Cmd(c) => Some(c),
            _ => None,
        }
    }
    pub fn evt(&self, id: usize) -> Option<&Evt> {
        match &self.msgs[id].payload {
            Payload::Evt(c) => Some(c),
            _ => None,
        }
    }
    pub fn note(&mut self, s: impl FnOnce() -> String) {
        if let Some(log) = &mut self.log {
            let line = s();
            log.push(format!("[{}] {}", self.step, line));
        }
    }
}

/// A short, deterministic description of a message (used for the event log and its hash).
pub fn summarize(p: &Payload) -> String {
    match p {
        Payload::Cmd(Command::UpdateProgram(u)) => format!(
            "UpdateProgram{{consts:{},fns:{},tuples:{},types:{},builtins:{},res:{},tc:{},canon:{}}}",
            u.constants.len(),
            u.functions.len(),
            u.tuples.len(),
            u.types.len(),
            u.builtins.len(),
            u.resources.len(),
            u.type_compatibility.len(),
            u.canonical_tuples.len()
        ),
        // an effect completion can carry megabytes (a read at the binary size limit): describe it by
        // length and content hash instead of rendering every byte
        Payload::Cmd(Command::EffectCompletion { process_id, result: Ok(v), heap }) if heap.iter().any(|h| h.len() > 65536) => {
            let mut f = crate::rng::Fnv::default();
            for h in heap {
                f.u64(h.len() as u64);
                for chunk in h.chunks(8) {
                    let mut b = [0u8; 8];
                    b[..chunk.len()].copy_from_slice(chunk);
                    f.u64(u64::from_le_bytes(b));
                }
            }
            format!("EffectCompletion{{pid:{process_id},value:{:?},heap_lens:{:?},heap_hash:{:x}}}", v, heap.iter().map(|h| h.len()).collect::<Vec<_>>(), f.0)
        }
        Payload::Cmd(c) => trim(format!("{:?}", c)),
        Payload::Evt(Event::SubscriptionUpdate { subscription_id, worker_id, .. }) => {
            format!("SubscriptionUpdate{{id:{subscription_id},w:{worker_id}}}")
        }
        Payload::Evt(Event::WorkerInfoResponse { request_id, .. }) => format!("WorkerInfoResponse{{{request_id}}}"),
        Payload::Evt(Event::StatusesResponse { request_id, .. }) => format!("StatusesResponse{{{request_id}}}"),
        Payload::Evt(Event::InfoResponse { request_id, .. }) => format!("InfoResponse{{{request_id}}}"),
        Payload::Evt(Event::ProcessTypesResponse { request_id, .. }) => format!("ProcessTypesResponse{{{request_id}}}"),
        Payload::Evt(e) => trim(format!("{:?}", e)),
    }
}

fn trim(mut s: String) -> String {
    if s.len() > 600 {
        let mut cut = 600;
        while !s.is_char_boundary(cut) {
            cut -= 1;
        }
        s.truncate(cut);
        s.push('…');
    }
    s
}

pub struct SimHandle {
    pub w: usize,
    pub sh: SharedRef,
}

impl WorkerHandle<E> for SimHandle {
    fn send(&mut self, command: Cmd) -> Result<(), EnvironmentError> {
        let mut sh = self.sh.lock().unwrap();
        let id = sh.record_send(self.w, Payload::Cmd(command));
        sh.cmd_q[self.w].push_back(id);
        Ok(())
    }
    fn try_recv(&mut self) -> Result<Option<Evt>, EnvironmentError> {
        let mut sh = self.sh.lock().unwrap();
        if sh.evt_allow[self.w] == 0 {
            return Ok(None);
        }
        let Some(id) = sh.evt_q[self.w].pop_front() else {
            return Ok(None);
        };
        sh.evt_allow[self.w] -= 1;
        sh.record_recv(id);
        match &sh.msgs[id].payload {
            Payload::Evt(e) => Ok(Some(e.clone())),
            _ => unreachable!(),
        }
    }
}

pub struct SimRx {
    pub w: usize,
    pub sh: SharedRef,
}

impl CommandReceiver<E> for SimRx {
    fn try_recv(&mut self) -> Result<Option<Cmd>, EnvironmentError> {
        let mut sh = self.sh.lock().unwrap();
        if sh.cmd_allow[self.w] == 0 {
            return Ok(None);
        }
        let Some(id) = sh.cmd_q[self.w].pop_front() else {
            return Ok(None);
        };
        sh.cmd_allow[self.w] -= 1;
        sh.record_recv(id);
        match &sh.msgs[id].payload {
            Payload::Cmd(c) => Ok(Some(c.clone())),
            _ => unreachable!(),
        }
    }
}

pub struct SimTx {
    pub w: usize,
    pub sh: SharedRef,
}

impl EventSender<E> for SimTx {
    fn send(&mut self, event: Evt) -> Result<(), EnvironmentError> {
        let mut sh = self.sh.lock().unwrap();
        let id = sh.record_send(self.w, Payload::Evt(event));
        sh.evt_q[self.w].push_back(id);
        Ok(())
    }
}
