//! SplitMix64: the single source of randomness. One seed decides a whole run.

#[derive(Clone, Debug)]
pub struct Rng(pub u64);

impl Rng {
    pub fn new(seed: u64) -> Self {
        Rng(seed ^ 0x9E37_79B9_7F4A_7C15)
    }
    pub fn next(&mut self) -> u64 {
        self.0 = self.0.wrapping_add(0x9E37_79B9_7F4A_7C15);
        let mut z = self.0;
        z = (z ^ (z >> 30)).wrapping_mul(0xBF58_476D_1CE4_E5B9);
        z = (z ^ (z >> 27)).wrapping_mul(0x94D0_49BB_1331_11EB);
        z ^ (z >> 31)
    }
    /// Uniform in 0..n (n > 0).
    pub fn below(&mut self, n: u64) -> u64 {
        if n <= 1 { 0 } else { self.next() % n }
    }
    pub fn usize(&mut self, n: usize) -> usize {
        self.below(n as u64) as usize
    }
    /// Uniform in lo..=hi.
    pub fn range(&mut self, lo: u64, hi: u64) -> u64 {
        lo + self.below(hi - lo + 1)
    }
    /// True with probability num/den.
    pub fn chance(&mut self, num: u64, den: u64) -> bool {
        self.below(den) < num
    }
    pub fn pick<'a, T>(&mut self, xs: &'a [T]) -> &'a T {
        &xs[self.usize(xs.len())]
    }
    pub fn fork(&mut self) -> Rng {
        Rng::new(self.next())
    }
    pub fn shuffle<T>(&mut self, xs: &mut [T]) {
        for i in (1..xs.len()).rev() {
            let j = self.usize(i + 1);
            xs.swap(i, j);
        }
    }
}

/// Mix several integers into one seed.
pub fn mix(parts: &[u64]) -> u64 {
    let mut h = 0xcbf2_9ce4_8422_2325u64;
    for p in parts {
        let mut r = Rng::new(h ^ *p);
        h = r.next();
    }
    h
}

/// FNV-1a rolling hash used for event-log hashes.
#[derive(Clone, Copy, Debug)]
pub struct Fnv(pub u64);
impl Default for Fnv {
    fn default() -> Self {
        Fnv(0xcbf2_9ce4_8422_2325)
    }
}
impl Fnv {
    pub fn bytes(&mut self, b: &[u8]) {
        for x in b {
            self.0 ^= *x as u64;
            self.0 = self.0.wrapping_mul(0x0100_0000_01b3);
        }
    }
    pub fn str(&mut self, s: &str) {
        self.bytes(s.as_bytes());
        self.bytes(&[0xff]);
    }
    pub fn u64(&mut self, v: u64) {
        self.bytes(&v.to_le_bytes());
    }
}
