//! One simulated run: build the world, drive it by scheduler or replay list, run monitors after
//! every decision, collect canonical results at the end.

use crate::canon::{BinSrc, Names, canon_result};
use crate::client::{Client, ClientOp, Out};
use crate::sched::{Next, SchedSpec, Scheduler};
use crate::world::{Decision, RunCfg, StepOutcome, World};
use serde::{Deserialize, Serialize};
use std::collections::{BTreeMap, HashMap};

#[derive(Clone, Debug, Serialize, Deserialize)]
pub struct Violation {
    /// property id
    pub prop: String,
    /// oracle clause, e.g. "hang", "panic", "result-mismatch"
    pub rule: String,
    /// classification key `<prop>/<rule>/<cause>`; stable under minimisation
    pub key: String,
    pub detail: String,
    pub step: u64,
}

impl Violation {
    pub fn new(prop: &str, rule: &str, cause: &str, detail: String, step: u64) -> Violation {
        Violation { prop: prop.to_string(), rule: rule.to_string(), key: format!("{prop}/{rule}/{cause}"), detail, step }
    }
}

#[derive(Clone, Debug, Serialize, Deserialize)]
pub struct RunSpec {
    pub cfg: RunCfg,
    pub ops: Vec<ClientOp>,
    pub modules: Vec<(Vec<String>, String)>,
    pub sched: SchedSpec,
    pub seed: u64,
    /// explicit decision list; when it runs out the canonical fair tail takes over
    pub replay: Option<Vec<Decision>>,
    /// estimated fault-free length (decisions), used for change points and the liveness bound
    pub est_len: u64,
    /// liveness bound on the fair tail (decisions); 0 = none
    pub tail_bound: u64,
    /// replay only: index in the decision list at which the original run entered its fair tail
    #[serde(default)]
    pub tail_from: Option<usize>,
}

pub trait Monitor {
    fn after(&mut self, _world: &World, _client: &Client, _d: &Decision, _out: &StepOutcome) -> Option<Violation> {
        None
    }
    fn at_end(&mut self, _world: &World, _client: &Client, _end: &EndState) -> Vec<Violation> {
        Vec::new()
    }
    /// probe counters for the evidence file
    fn probes(&self) -> BTreeMap<String, u64> {
        BTreeMap::new()
    }
}

pub struct NoMonitor;
impl Monitor for NoMonitor {}

#[derive(Clone, Debug, PartialEq, Serialize, Deserialize)]
pub enum EndState {
    /// client finished every op and the system settled
    Completed,
    /// nothing can happen any more but the client is still waiting
    Hang,
    /// step cap reached before completion (unfair schedule or very long run): inconclusive
    StepCap,
    /// a Worker::step / Environment::step panicked or returned Err
    Dead,
    /// a monitor reported a violation mid-run
    Violated,
    /// fair tail exceeded its liveness bound
    TailBound,
}

#[derive(Clone, Debug, Serialize, Deserialize)]
pub struct RunResult {
    pub end: EndState,
    /// the client script that was executed
    #[serde(default)]
    pub ops: Vec<ClientOp>,
    pub outs: Vec<Out>,
    /// canonical per-process results at the end, keyed by spawn path
    pub procs: BTreeMap<String, String>,
    pub violations: Vec<Violation>,
    pub decisions: Vec<Decision>,
    pub log_hash: u64,
    pub steps: u64,
    pub tail_steps: u64,
    /// index in `decisions` at which the fair tail began
    #[serde(default)]
    pub tail_from: Option<usize>,
    pub sim_ms: u64,
    pub counts: BTreeMap<String, u64>,
    pub probes: BTreeMap<String, u64>,
    pub msgs: u64,
    pub log: Option<Vec<String>>,
    pub failure: Option<String>,
    /// hash of the interleaving: sequence of (actor, messages received) per decision
    pub interleaving_hash: u64,
    /// number of cross-actor messages handled while an older message to another actor was still queued
    pub out_of_order_handled: u64,
}

pub fn execute(spec: &RunSpec, monitor: &mut dyn Monitor, keep_log: bool) -> RunResult {
    let mut world = World::new(spec.cfg.clone(), keep_log);
    let modules: HashMap<Vec<String>, String> = spec.modules.iter().cloned().collect();
    let mut client = Client::new(spec.ops.clone(), modules);
    let mut sched = Scheduler::new(spec.sched.clone(), spec.seed, spec.cfg.nworkers, spec.est_len.max(10));
    let mut decisions: Vec<Decision> = Vec::new();
    let mut violations: Vec<Violation> = Vec::new();
    let mut replay_iter = spec.replay.as_ref().map(|v| v.clone().into_iter());
    let mut end = EndState::StepCap;
    let mut failure = None;
    let mut tail_start: Option<u64> = None;
    let mut tail_from: Option<usize> = None;
    let mut ihash = crate::rng::Fnv::default();
    let mut ooo = 0u64;
    let tau0 = world.tau;

    loop {
        if world.steps >= spec.cfg.max_steps {
            end = EndState::StepCap;
            break;
        }
        // choose
        let mut from_replay = false;
        let next = if let Some(it) = replay_iter.as_mut() {
            match it.next() {
                Some(d) => {
                    from_replay = true;
                    Next::Do(d)
                }
                None => {
                    replay_iter = None;
                    sched.in_tail = true;
                    sched.tail_next(&world, &client)
                }
            }
        } else {
            sched.next(&world, &client)
        };
        if sched.in_tail && tail_start.is_none() && !from_replay {
            tail_start = Some(world.steps);
            tail_from = Some(decisions.len());
        }
        if from_replay
            && tail_start.is_none()
            && let Some(tf) = spec.tail_from
            && decisions.len() >= tf
        {
            tail_start = Some(world.steps);
        }
        let d = match next {
            Next::Do(d) => d,
            Next::Quiescent => {
                if client.done() {
                    end = EndState::Completed;
                } else {
                    end = EndState::Hang;
                }
                break;
            }
        };
        // apply
        if !from_replay && spec.replay.is_some() && decisions.len() < spec.replay.as_ref().unwrap().len() + 40 && std::env::var("QSIM_DEBUG2").is_ok() {
            let v = world.view();
            eprintln!("post-list decision {:?} view={:?} client_wait={} polled={}", d, v, client.waiting(), client.polled_since_env);
        }
        let out = apply(&mut world, &mut client, &d);
        decisions.push(d.clone());
        {
            let sh = world.sh.lock().unwrap();
            ihash.u64(out.actor as u64);
            for id in &sh.cur_recv {
                ihash.u64(*id as u64);
                // was an older message (lower id) to a different consumer still queued?
                let older_elsewhere = sh.cmd_q.iter().chain(sh.evt_q.iter()).any(|q| q.front().is_some_and(|f| *f < *id));
                if older_elsewhere {
                    ooo += 1;
                }
            }
        }
        if let Some(f) = &out.failure {
            failure = Some(f.clone());
        }
        if let Some(v) = monitor.after(&world, &client, &d, &out) {
            violations.push(v);
            end = EndState::Violated;
            break;
        }
        if world.dead {
            end = EndState::Dead;
            break;
        }
        if let Some(ts) = tail_start
            && spec.tail_bound > 0
            && world.steps - ts > spec.tail_bound
            && !client.done()
        {
            end = EndState::TailBound;
            break;
        }
    }

    let tail_steps = tail_start.map(|t| world.steps - t).unwrap_or(0);
    violations.extend(monitor.at_end(&world, &client, &end));

    // the answers to the result requests issued mid-run: each must be the process's result, and at a
    // completed (quiescent) end every request for a process that has a result must have been answered
    let mut observer_probes: BTreeMap<String, u64> = BTreeMap::new();
    if !world.dead {
        client.drain_probes(&mut world);
        observer_probes.insert("observer_requests_mid_run".into(), client.observer_requests);
        observer_probes.insert("result_requests_answered_mid_run".into(), client.probe_answers.len() as u64);
        let program = world.env.get_program().clone();
        let find = |world: &World, pid: usize| -> Option<usize> { (0..world.workers.len()).find(|wi| world.workers[*wi].verif_executor().get_process(pid).is_some()) };
        for (pid, ans) in &client.probe_answers {
            let Some(wi) = find(&world, *pid) else { continue };
            let ex = world.workers[wi].verif_executor();
            let Some(fin) = ex.get_process(*pid).and_then(|p| p.result.as_ref()) else {
                violations.push(Violation::new("ANY", "result-request", "answered-for-unfinished-process", format!("a result request for process {} was answered although the process has no result at the end", world.pid_names.get(pid).cloned().unwrap_or_default()), world.steps));
                continue;
            };
            let mut n1 = Names { pids: world.pid_names.clone(), fn_ids: true, ..Default::default() };
            let mut n2 = Names { pids: world.pid_names.clone(), fn_ids: true, ..Default::default() };
            let want = canon_result(fin, &BinSrc::Exec(ex), &program, &mut n1);
            let got = match ans {
                Ok((v, heap)) => crate::canon::canon(v, &BinSrc::Extracted(heap), &program, &mut n2),
                Err(e) => format!("ERR({:?})", e),
            };
            if want != got {
                violations.push(Violation::new("ANY", "result-request", "differs-from-process-result", format!("a result request issued while process {} was running was answered {got}; the process's result is {want}", world.pid_names.get(pid).cloned().unwrap_or_default()), world.steps));
            }
        }
        if end == EndState::Completed {
            for (_, pid) in &client.result_probes {
                if let Some(wi) = find(&world, *pid)
                    && world.workers[wi].verif_executor().get_process(*pid).map(|p| p.result.is_some()).unwrap_or(false)
                {
                    violations.push(Violation::new("ANY", "result-request", "never-answered", format!("process {} has finished and the system is quiescent, but a result request issued while it was running was never answered", world.pid_names.get(pid).cloned().unwrap_or_default()), world.steps));
                }
            }
        }
    }

    // canonical per-process results
    let mut procs = BTreeMap::new();
    if !world.dead {
        let mut names = Names { pids: world.pid_names.clone(), fn_ids: true, ..Default::default() };
        let program = world.env.get_program();
        let mut by_path: Vec<(String, usize, usize)> = Vec::new();
        for (wi, w) in world.workers.iter().enumerate() {
            for pid in w.verif_executor().verif_process_ids() {
                let path = world.pid_names.get(&pid).cloned().unwrap_or_else(|| format!("?{}", pid));
                by_path.push((path, wi, pid));
            }
        }
        by_path.sort();
        for (path, wi, pid) in by_path {
            let ex = world.workers[wi].verif_executor();
            let p = ex.get_process(pid).unwrap();
            let s = match &p.result {
                None => "<running>".to_string(),
                Some(r) => canon_result(r, &BinSrc::Exec(ex), program, &mut names),
            };
            procs.insert(path, s);
        }
    }
    let sh = world.sh.lock().unwrap();
    let mut counts: BTreeMap<String, u64> = world.counts.iter().map(|(k, v)| (k.to_string(), *v)).collect();
    counts.insert("json_messages".into(), sh.json_msgs);
    for (k, v) in &world.backend.lock().unwrap().faults_fired {
        counts.insert(format!("fault_{k}"), *v);
    }
    let mut errors = sh.errors.clone();
    if !errors.is_empty() {
        let e = errors.remove(0);
        // the cause is part of the classification key: a value nested deeper than the decoder's limit
        // is one specific (known) defect of the JSON transport, any other failure is another
        let cause = if e.contains("recursion limit exceeded") { "json-nesting-limit" } else { "json" };
        violations.push(Violation::new("ANY", "transport", cause, e, world.steps));
    }
    RunResult {
        end,
        ops: spec.ops.clone(),
        outs: client.outs.clone(),
        procs,
        violations,
        decisions,
        log_hash: sh.hash.0,
        steps: world.steps,
        tail_steps,
        tail_from: tail_from.or(spec.tail_from),
        sim_ms: world.tau - tau0,
        counts,
        probes: {
            let mut p = monitor.probes();
            for (k, v) in observer_probes {
                *p.entry(k).or_insert(0) += v;
            }
            p
        },
        msgs: sh.msgs.len() as u64,
        log: sh.log.clone(),
        failure,
        interleaving_hash: ihash.0,
        out_of_order_handled: ooo,
    }
}

pub fn apply(world: &mut World, client: &mut Client, d: &Decision) -> StepOutcome {
    match d {
        Decision::W { i, take, q } => world.step_worker(*i, *take, *q),
        Decision::E { take } => {
            let o = world.step_env(take);
            // the client needs to poll again only if the environment consumed something
            if o.did_work {
                client.polled_since_env = false;
            }
            o
        }
        Decision::C => {
            let r = std::panic::catch_unwind(std::panic::AssertUnwindSafe(|| client.act(world)));
            match r {
                Ok(p) => StepOutcome { actor: 0, did_work: p, ..Default::default() },
                Err(p) => {
                    world.dead = true;
                    StepOutcome { actor: 0, failure: Some(format!("client/environment call panicked: {}", crate::world::panic_msg(&p))), panicked: true, ..Default::default() }
                }
            }
        }
        Decision::B { k } => {
            let r = world.release_backend(*k);
            StepOutcome { actor: usize::MAX, did_work: r, ..Default::default() }
        }
        Decision::T { dt } => {
            world.advance(*dt);
            StepOutcome { actor: usize::MAX, did_work: true, ..Default::default() }
        }
        Decision::J { back } => {
            world.jump_back(*back);
            StepOutcome { actor: usize::MAX, did_work: true, ..Default::default() }
        }
        Decision::N { k } => {
            let r = std::panic::catch_unwind(std::panic::AssertUnwindSafe(|| client.inject_observer(world, *k)));
            match r {
                Ok(()) => StepOutcome { actor: 0, did_work: true, ..Default::default() },
                Err(p) => {
                    world.dead = true;
                    StepOutcome { actor: 0, failure: Some(format!("observer request panicked: {}", crate::world::panic_msg(&p))), panicked: true, ..Default::default() }
                }
            }
        }
    }
}

/// Run on a fresh thread so the HashMap keys derive from `hash_seed` (see detrand).
pub fn execute_isolated<M: Monitor + Send + 'static>(spec: RunSpec, mut monitor: M, keep_log: bool, hash_seed: u64) -> (RunResult, M) {
    let h = std::thread::Builder::new()
        .stack_size(256 * 1024 * 1024)
        .spawn(move || {
            crate::detrand::set_thread_seed(hash_seed);
            let r = execute(&spec, &mut monitor, keep_log);
            (r, monitor)
        })
        .expect("spawn run thread");
    h.join().expect("run thread panicked outside catch_unwind")
}
