//! SimBackend: an in-memory file backend implementing `EffectBackend<E = NativeEffect>`.
//! Stub for quiver-io's io_uring backend. Mirrors its observable protocol: open/close complete
//! immediately, read/write/flush complete asynchronously (released by the scheduler, possibly out
//! of order across processes), errors are injected from a per-run fault plan.

use quiver_core::effects::{EffectBackend, EffectError, EffectResult, ResultTupleInfo};
use quiver_core::error::Error;
use quiver_core::process::ProcessId;
use quiver_core::value::{Binary, ResourceId, Value};
use quiver_io::NativeEffect;
use std::collections::BTreeMap;
use std::sync::{Arc, Mutex};

#[derive(Clone, Debug, PartialEq)]
pub enum BackendOp {
    Open { path: String },
    Read { rid: ResourceId },
    Write { rid: ResourceId, len: usize },
    Flush { rid: ResourceId },
    Close { rid: ResourceId },
    Other,
}

#[derive(Clone, Debug)]
pub enum BackendRec {
    /// execute() called by the environment on behalf of `pid`
    Execute { step: u64, pid: ProcessId, op: BackendOp, outcome: String, new_rid: Option<ResourceId> },
    /// close_resource() called by the environment (automatic cleanup)
    AutoClose { step: u64, rid: ResourceId, was_open: bool },
    /// an async completion handed back to the environment; `new_rid` if it carries a new resource
    /// (an accepted connection)
    Completed { step: u64, pid: ProcessId, ok: bool, new_rid: Option<ResourceId> },
}

/// One end of an in-memory connection.
#[derive(Clone, Debug, Default)]
pub struct SockEnd {
    pub peer: usize,
    pub inbox: Vec<u8>,
    pub peer_closed: bool,
    pub closed: bool,
}

#[derive(Clone, Copy, Debug, PartialEq, Eq, serde::Serialize, serde::Deserialize)]
pub enum FaultKind {
    /// execute() returns Err (submission failure) -> report_effect_error path
    SubmitError,
    /// the operation completes with an EffectError
    CompleteError,
    /// write reports fewer bytes than requested / read returns fewer bytes
    Short,
}

pub struct BackendState {
    pub files: BTreeMap<String, Vec<u8>>,
    pub open: BTreeMap<ResourceId, (String, bool)>, // rid -> (path, append)
    pub next_rid: ResourceId,
    pub file_type_id: usize,
    pub dns_type_id: usize,
    pub dir_type_id: usize,
    /// open resolver resources: rid -> position in the (fixed) address list
    pub resolvers: BTreeMap<ResourceId, usize>,
    /// open directory iterators: rid -> remaining entry names
    pub dirs: BTreeMap<ResourceId, Vec<String>>,
    pub socket_type_id: usize,
    pub listener_type_id: usize,
    /// loopback TCP: listener rid -> (port, connection ends waiting to be accepted)
    pub listeners: BTreeMap<ResourceId, (u16, Vec<usize>)>,
    /// socket rid -> connection end
    pub sockets: BTreeMap<ResourceId, usize>,
    pub ends: Vec<SockEnd>,
    /// accepts waiting for a connection: (pid, listener rid)
    pub waiting_accepts: Vec<(ProcessId, ResourceId)>,
    /// reads waiting for data: (pid, end, length)
    pub waiting_reads: Vec<(ProcessId, usize, usize)>,
    /// type ids of composite effect results, pushed by the environment (builtin name -> info)
    pub result_infos: BTreeMap<String, (usize, BTreeMap<String, usize>)>,
    pub type_ids_pushed: u64,
    /// async completions not yet released by the scheduler
    pub pending: Vec<(ProcessId, EffectResult)>,
    /// released, to be returned by the next process_completions()
    pub ready: Vec<(ProcessId, EffectResult)>,
    pub history: Vec<BackendRec>,
    pub step: u64,
    /// request ordinal -> fault
    pub faults: BTreeMap<u64, FaultKind>,
    pub requests: u64,
    pub faults_fired: BTreeMap<String, u64>,
    /// if true, read/write/flush complete immediately instead of asynchronously
    pub sync_io: bool,
}

pub type BackendRef = Arc<Mutex<BackendState>>;

impl BackendState {
    pub fn new(files: BTreeMap<String, Vec<u8>>, faults: BTreeMap<u64, FaultKind>, sync_io: bool) -> BackendRef {
        Arc::new(Mutex::new(BackendState {
            files,
            open: BTreeMap::new(),
            next_rid: 1,
            file_type_id: 0,
            dns_type_id: 0,
            dir_type_id: 0,
            resolvers: BTreeMap::new(),
            dirs: BTreeMap::new(),
            socket_type_id: 0,
            listener_type_id: 0,
            listeners: BTreeMap::new(),
            sockets: BTreeMap::new(),
            ends: Vec::new(),
            waiting_accepts: Vec::new(),
            waiting_reads: Vec::new(),
            result_infos: BTreeMap::new(),
            type_ids_pushed: 0,
            pending: Vec::new(),
            ready: Vec::new(),
            history: Vec::new(),
            step: 0,
            faults,
            requests: 0,
            faults_fired: BTreeMap::new(),
            sync_io,
        }))
    }
    /// Scheduler decision: release the k-th pending completion (clamped).
    pub fn release(&mut self, k: usize) -> bool {
        if self.pending.is_empty() {
            return false;
        }
        let k = k.min(self.pending.len() - 1);
        let c = self.pending.remove(k);
        self.ready.push(c);
        true
    }
    /// data or EOF became available on `end`: complete the reads waiting on it
    fn wake_reads(&mut self, end: usize) {
        let mut i = 0;
        while i < self.waiting_reads.len() {
            let (pid, e, len) = self.waiting_reads[i];
            if e == end && (!self.ends[end].inbox.is_empty() || self.ends[end].peer_closed) {
                self.waiting_reads.remove(i);
                let n = len.min(self.ends[end].inbox.len());
                let bytes: Vec<u8> = self.ends[end].inbox.drain(..n).collect();
                self.pending.push((pid, Ok((Value::Binary(Binary::Heap(0)), vec![bytes]))));
            } else {
                i += 1;
            }
        }
    }
    fn close_socket_end(&mut self, end: usize) {
        self.ends[end].closed = true;
        let peer = self.ends[end].peer;
        if peer < self.ends.len() {
            self.ends[peer].peer_closed = true;
            self.wake_reads(peer);
        }
        // reads of the closed end itself fail
        let mut i = 0;
        while i < self.waiting_reads.len() {
            if self.waiting_reads[i].1 == end {
                let (pid, _, _) = self.waiting_reads.remove(i);
                self.pending.push((pid, Err(EffectError::IO("Read error: socket closed".to_string()))));
            } else {
                i += 1;
            }
        }
    }
    fn close_listener(&mut self, rid: ResourceId) {
        let mut i = 0;
        while i < self.waiting_accepts.len() {
            if self.waiting_accepts[i].1 == rid {
                let (pid, _) = self.waiting_accepts.remove(i);
                self.pending.push((pid, Err(EffectError::IO("Accept error: listener closed".to_string()))));
            } else {
                i += 1;
            }
        }
    }
    fn fired(&mut self, k: &str) {
        *self.faults_fired.entry(k.to_string()).or_insert(0) += 1;
    }
}

pub struct SimBackend(pub BackendRef);

impl EffectBackend for SimBackend {
    type E = NativeEffect;

    fn execute(&mut self, pid: ProcessId, effect: NativeEffect) -> Result<Option<EffectResult>, Error> {
        let mut st = self.0.lock().unwrap();
        let ord = st.requests;
        st.requests += 1;
        let fault = st.faults.get(&ord).copied();
        let step = st.step;
        let (op, res): (BackendOp, Result<Option<EffectResult>, Error>) = match effect {
            NativeEffect::FileOpen { path, flags, .. } => {
                let path = String::from_utf8_lossy(&path).into_owned();
                let op = BackendOp::Open { path: path.clone() };
                if fault.is_some() {
                    st.fired("open_error");
                    (op, Err(Error::InvalidArgument("Failed to open file: injected".to_string())))
                } else {
                    // a virtual file just over the runtime's 16 MiB binary limit: a read may legally return
                    // more than a process can hold
                    if path == "/huge" && !st.files.contains_key(&path) {
                        st.files.insert(path.clone(), vec![0u8; 16 * 1024 * 1024 + 4096]);
                    }
                    let create = flags & 0o100 != 0;
                    let trunc = flags & 0o1000 != 0;
                    let append = flags & 0o2000 != 0;
                    if !st.files.contains_key(&path) && !create {
                        (op, Err(Error::InvalidArgument("Failed to open file: No such file".to_string())))
                    } else {
                        let f = st.files.entry(path.clone()).or_default();
                        if trunc {
                            f.clear();
                        }
                        let rid = st.next_rid;
                        st.next_rid += 1;
                        st.open.insert(rid, (path, append));
                        let ty = st.file_type_id;
                        (op, Ok(Some(Ok((Value::Resource(rid, ty), vec![])))))
                    }
                }
            }
            NativeEffect::FileRead { resource_id, offset, length } => {
                // the native backend allocates the read buffer it is asked for (`vec![0u8; length]`):
                // an absurd length is an allocation failure, i.e. an abort of the host
                assert!(length <= 1usize << 34, "memory allocation of {length} bytes failed (read buffer of the requested length)");
                let op = BackendOp::Read { rid: resource_id };
                match st.open.get(&resource_id).cloned() {
                    None => (op, Err(Error::InvalidArgument(format!("Resource {} not found", resource_id)))),
                    Some((path, _)) => match fault {
                        Some(FaultKind::SubmitError) => {
                            st.fired("read_submit_error");
                            (op, Err(Error::InvalidArgument("Failed to submit read: injected".to_string())))
                        }
                        Some(FaultKind::CompleteError) => {
                            st.fired("read_complete_error");
                            (op, Ok(Some(Err(EffectError::IO("Read error: 5".to_string())))))
                        }
                        other => {
                            let data = st.files.get(&path).cloned().unwrap_or_default();
                            let start = (offset as usize).min(data.len());
                            let mut end = (start + length).min(data.len());
                            if other == Some(FaultKind::Short) && end > start + 1 {
                                st.fired("short_read");
                                end = start + (end - start) / 2;
                            }
                            let bytes = data[start..end].to_vec();
                            (op, Ok(Some(Ok((Value::Binary(Binary::Heap(0)), vec![bytes])))))
                        }
                    },
                }
            }
            NativeEffect::FileWrite { resource_id, offset, data } => {
                let op = BackendOp::Write { rid: resource_id, len: data.len() };
                match st.open.get(&resource_id).cloned() {
                    None => (op, Err(Error::InvalidArgument(format!("Resource {} not found", resource_id)))),
                    Some((path, append)) => match fault {
                        Some(FaultKind::SubmitError) => {
                            st.fired("write_submit_error");
                            (op, Err(Error::InvalidArgument("Failed to submit write: injected".to_string())))
                        }
                        Some(FaultKind::CompleteError) => {
                            st.fired("write_complete_error");
                            (op, Ok(Some(Err(EffectError::IO("Write error: 28".to_string())))))
                        }
                        other => {
                            let mut n = data.len();
                            if other == Some(FaultKind::Short) && n > 1 {
                                st.fired("short_write");
                                n /= 2;
                            }
                            let f = st.files.entry(path).or_default();
                            let off = if append { f.len() } else { offset as usize };
                            if f.len() < off + n {
                                f.resize(off + n, 0);
                            }
                            f[off..off + n].copy_from_slice(&data[..n]);
                            (op, Ok(Some(Ok((Value::Integer((n as i64).into()), vec![])))))
                        }
                    },
                }
            }
            NativeEffect::FileFlush { resource_id } => {
                let op = BackendOp::Flush { rid: resource_id };
                if !st.open.contains_key(&resource_id) {
                    (op, Err(Error::InvalidArgument(format!("Resource {} not found", resource_id))))
                } else if fault.is_some() {
                    st.fired("flush_error");
                    (op, Ok(Some(Err(EffectError::IO("Flush error: 5".to_string())))))
                } else {
                    (op, Ok(Some(Ok((Value::ok(), vec![])))))
                }
            }
            NativeEffect::FileClose { resource_id } => {
                let op = BackendOp::Close { rid: resource_id };
                if st.open.remove(&resource_id).is_none() {
                    (op, Err(Error::InvalidArgument(format!("Resource {} not found", resource_id))))
                } else {
                    (op, Ok(Some(Ok((Value::ok(), vec![])))))
                }
            }
            // loopback TCP: listen / connect / accept / read / write / close over in-memory connection ends
            NativeEffect::TcpListen { port, .. } => {
                let op = BackendOp::Open { path: format!("tcp-listen:{port}") };
                if st.listeners.values().any(|(p, _)| *p == port) {
                    (op, Err(Error::InvalidArgument(format!("Failed to bind port {port}: address in use"))))
                } else {
                    let rid = st.next_rid;
                    st.next_rid += 1;
                    st.listeners.insert(rid, (port, Vec::new()));
                    let ty = st.listener_type_id;
                    (op, Ok(Some(Ok((Value::Resource(rid, ty), vec![])))))
                }
            }
            NativeEffect::TcpConnect { port, .. } => {
                let op = BackendOp::Open { path: format!("tcp-connect:{port}") };
                if fault.is_some() {
                    st.fired("connect_error");
                }
                let Some(lrid) = st.listeners.iter().find(|(_, (p, _))| *p == port).map(|(r, _)| *r).filter(|_| fault.is_none()) else {
                    return {
                        let res: Result<Option<EffectResult>, Error> = Ok(Some(Err(EffectError::IO("Connection refused".to_string()))));
                        st.history.push(BackendRec::Execute { step, pid, op, outcome: "effect-error:refused".to_string(), new_rid: None });
                        res
                    };
                };
                let a = st.ends.len();
                st.ends.push(SockEnd { peer: a + 1, ..Default::default() });
                st.ends.push(SockEnd { peer: a, ..Default::default() });
                let rid = st.next_rid;
                st.next_rid += 1;
                st.sockets.insert(rid, a);
                // hand the other end to a waiting accept, or queue it
                if let Some(pos) = st.waiting_accepts.iter().position(|(_, l)| *l == lrid) {
                    let (apid, _) = st.waiting_accepts.remove(pos);
                    let srid = st.next_rid;
                    st.next_rid += 1;
                    st.sockets.insert(srid, a + 1);
                    let ty = st.socket_type_id;
                    st.pending.push((apid, Ok((Value::Resource(srid, ty), vec![]))));
                } else {
                    st.listeners.get_mut(&lrid).unwrap().1.push(a + 1);
                }
                let ty = st.socket_type_id;
                (op, Ok(Some(Ok((Value::Resource(rid, ty), vec![])))))
            }
            NativeEffect::TcpListenerAccept { resource_id } => {
                let op = BackendOp::Read { rid: resource_id };
                let injected = fault.is_some() && st.listeners.contains_key(&resource_id);
                if injected {
                    st.fired("accept_error");
                }
                match st.listeners.get_mut(&resource_id) {
                    None => (op, Err(Error::InvalidArgument(format!("Resource {} not found", resource_id)))),
                    Some(_) if injected => (op, Ok(Some(Err(EffectError::IO("Accept error: injected".to_string()))))),
                    Some((_, q)) if !q.is_empty() => {
                        let end = q.remove(0);
                        let rid = st.next_rid;
                        st.next_rid += 1;
                        st.sockets.insert(rid, end);
                        let ty = st.socket_type_id;
                        (op, Ok(Some(Ok((Value::Resource(rid, ty), vec![])))))
                    }
                    Some(_) => {
                        st.waiting_accepts.push((pid, resource_id));
                        (op, Ok(None))
                    }
                }
            }
            NativeEffect::TcpListenerClose { resource_id } => {
                let op = BackendOp::Close { rid: resource_id };
                if st.listeners.remove(&resource_id).is_none() {
                    (op, Err(Error::InvalidArgument(format!("Resource {} not found", resource_id))))
                } else {
                    st.close_listener(resource_id);
                    (op, Ok(Some(Ok((Value::ok(), vec![])))))
                }
            }
            NativeEffect::TcpSocketRead { resource_id, length } => {
                assert!(length <= 1usize << 34, "memory allocation of {length} bytes failed (read buffer of the requested length)");
                let op = BackendOp::Read { rid: resource_id };
                let known = st.sockets.contains_key(&resource_id);
                let length = match fault {
                    Some(FaultKind::Short) if known && length > 1 => {
                        st.fired("socket_short_read");
                        1
                    }
                    _ => length,
                };
                match st.sockets.get(&resource_id).copied() {
                    None => (op, Err(Error::InvalidArgument(format!("Resource {} not found", resource_id)))),
                    Some(_) if fault == Some(FaultKind::SubmitError) => {
                        st.fired("socket_read_submit_error");
                        (op, Err(Error::InvalidArgument("Failed to submit read: injected".to_string())))
                    }
                    Some(_) if fault == Some(FaultKind::CompleteError) => {
                        st.fired("socket_read_error");
                        (op, Ok(Some(Err(EffectError::IO("Read error: connection reset (injected)".to_string())))))
                    }
                    Some(end) => {
                        if !st.ends[end].inbox.is_empty() || st.ends[end].peer_closed {
                            let n = length.min(st.ends[end].inbox.len());
                            let bytes: Vec<u8> = st.ends[end].inbox.drain(..n).collect();
                            (op, Ok(Some(Ok((Value::Binary(Binary::Heap(0)), vec![bytes])))))
                        } else {
                            st.waiting_reads.push((pid, end, length));
                            (op, Ok(None))
                        }
                    }
                }
            }
            NativeEffect::TcpSocketWrite { resource_id, data } => {
                let op = BackendOp::Write { rid: resource_id, len: data.len() };
                match st.sockets.get(&resource_id).copied() {
                    None => (op, Err(Error::InvalidArgument(format!("Resource {} not found", resource_id)))),
                    Some(_) if fault == Some(FaultKind::SubmitError) => {
                        st.fired("socket_write_submit_error");
                        (op, Err(Error::InvalidArgument("Failed to submit write: injected".to_string())))
                    }
                    Some(_) if fault == Some(FaultKind::CompleteError) => {
                        st.fired("socket_write_error");
                        (op, Ok(Some(Err(EffectError::IO("Write error: connection reset (injected)".to_string())))))
                    }
                    Some(end) => {
                        let peer = st.ends[end].peer;
                        if st.ends[end].peer_closed {
                            (op, Ok(Some(Err(EffectError::IO("Write error: broken pipe".to_string())))))
                        } else {
                            let n = if fault == Some(FaultKind::Short) && data.len() > 1 {
                                st.fired("socket_short_write");
                                data.len() / 2
                            } else {
                                data.len()
                            };
                            let data = &data[..n];
                            st.ends[peer].inbox.extend_from_slice(data);
                            st.wake_reads(peer);
                            (op, Ok(Some(Ok((Value::Integer(n.into()), vec![])))))
                        }
                    }
                }
            }
            NativeEffect::TcpSocketClose { resource_id } => {
                let op = BackendOp::Close { rid: resource_id };
                match st.sockets.remove(&resource_id) {
                    None => (op, Err(Error::InvalidArgument(format!("Resource {} not found", resource_id)))),
                    Some(end) => {
                        st.close_socket_end(end);
                        (op, Ok(Some(Ok((Value::ok(), vec![])))))
                    }
                }
            }
            // directory listing and stat over the in-memory file table: composite results stamped with the
            // type ids the environment pushed (`[name, kind]`, `[kind, size, modified, mode]`)
            NativeEffect::ReadDirOpen { path } => {
                let path = String::from_utf8_lossy(&path).into_owned();
                let op = BackendOp::Open { path: format!("dir:{path}") };
                let prefix = if path.ends_with('/') { path.clone() } else { format!("{path}/") };
                let mut names: Vec<String> = st.files.keys().filter(|k| k.starts_with(&prefix)).map(|k| k[prefix.len()..].to_string()).collect();
                names.reverse(); // popped from the back
                let rid = st.next_rid;
                st.next_rid += 1;
                st.dirs.insert(rid, names);
                let ty = st.dir_type_id;
                (op, Ok(Some(Ok((Value::Resource(rid, ty), vec![])))))
            }
            NativeEffect::ReadDirNext { resource_id } => {
                let op = BackendOp::Read { rid: resource_id };
                let info = st.result_infos.get("directory_next").cloned();
                match (st.dirs.get_mut(&resource_id), info) {
                    (None, _) => (op, Err(Error::InvalidArgument(format!("Resource {} not found", resource_id)))),
                    (_, None) => (op, Err(Error::InvalidArgument("no result type ids registered for builtin `directory_next`".to_string()))),
                    (Some(names), Some((tuple_id, variants))) => match names.pop() {
                        None => (op, Ok(Some(Ok((Value::nil(), vec![]))))),
                        Some(name) => match variants.get("File") {
                            None => (op, Err(Error::InvalidArgument("no tuple id registered for kind tag `File`".to_string()))),
                            Some(kind) => (op, Ok(Some(Ok((Value::tuple(tuple_id, vec![Value::Binary(Binary::Heap(0)), Value::tuple(*kind, vec![])]), vec![name.into_bytes()]))))),
                        },
                    },
                }
            }
            NativeEffect::ReadDirClose { resource_id } => {
                let op = BackendOp::Close { rid: resource_id };
                if st.dirs.remove(&resource_id).is_none() {
                    (op, Err(Error::InvalidArgument(format!("Resource {} not found", resource_id))))
                } else {
                    (op, Ok(Some(Ok((Value::ok(), vec![])))))
                }
            }
            NativeEffect::Stat { path } => {
                let path = String::from_utf8_lossy(&path).into_owned();
                let info = st.result_infos.get("filesystem_stat").cloned();
                match (st.files.get(&path).map(|f| f.len()), info) {
                    (None, _) => (BackendOp::Other, Ok(Some(Ok((Value::nil(), vec![]))))),
                    (_, None) => (BackendOp::Other, Err(Error::InvalidArgument("no result type ids registered for builtin `filesystem_stat`".to_string()))),
                    (Some(len), Some((tuple_id, variants))) => match variants.get("File") {
                        None => (BackendOp::Other, Err(Error::InvalidArgument("no tuple id registered for kind tag `File`".to_string()))),
                        Some(kind) => (
                            BackendOp::Other,
                            Ok(Some(Ok((Value::tuple(tuple_id, vec![Value::tuple(*kind, vec![]), Value::Integer(len.into()), Value::Integer(0.into()), Value::Integer(420.into())]), vec![])))),
                        ),
                    },
                }
            }
            // a second kind of resource: an iterator over resolved addresses (all immediate, as in the
            // native backend); recorded as Open / Read / Close so that the ownership model applies as is
            NativeEffect::DnsResolve { hostname } => {
                let op = BackendOp::Open { path: format!("dns:{}", String::from_utf8_lossy(&hostname)) };
                if fault.is_some() {
                    st.fired("resolve_error");
                    (op, Err(Error::InvalidArgument("DNS resolution failed: injected".to_string())))
                } else {
                    let rid = st.next_rid;
                    st.next_rid += 1;
                    st.resolvers.insert(rid, 0);
                    let ty = st.dns_type_id;
                    (op, Ok(Some(Ok((Value::Resource(rid, ty), vec![])))))
                }
            }
            NativeEffect::DnsNext { resource_id } => {
                let op = BackendOp::Read { rid: resource_id };
                match st.resolvers.get_mut(&resource_id) {
                    None => (op, Err(Error::InvalidArgument(format!("Resource {} not found", resource_id)))),
                    Some(pos) if *pos < 2 => {
                        *pos += 1;
                        let ip = vec![10, 0, 0, *pos as u8];
                        (op, Ok(Some(Ok((Value::Binary(Binary::Heap(0)), vec![ip])))))
                    }
                    Some(_) => (op, Ok(Some(Ok((Value::nil(), vec![]))))),
                }
            }
            NativeEffect::DnsClose { resource_id } => {
                let op = BackendOp::Close { rid: resource_id };
                if st.resolvers.remove(&resource_id).is_none() {
                    (op, Err(Error::InvalidArgument(format!("Resource {} not found", resource_id))))
                } else {
                    (op, Ok(Some(Ok((Value::ok(), vec![])))))
                }
            }
            _ => (BackendOp::Other, Err(Error::InvalidArgument("effect not supported by SimBackend".to_string()))),
        };
        // read/write/flush (and accept, recorded as a read of the listener) are asynchronous in the real
        // backend: the completion is held back, and a resource it carries exists for the environment only
        // once the completion has been handed over (recorded there)
        let deferred = matches!(op, BackendOp::Read { .. } | BackendOp::Write { .. } | BackendOp::Flush { .. }) && !st.sync_io;
        let new_rid = match &res {
            Ok(Some(Ok((Value::Resource(r, _), _)))) if !deferred => Some(*r),
            _ => None,
        };
        let outcome = match &res {
            Ok(Some(Ok(_))) => "ok".to_string(),
            Ok(Some(Err(e))) => format!("effect-error:{e}"),
            Ok(None) => "async".to_string(),
            Err(e) => format!("submit-error:{e:?}"),
        };
        // read/write/flush are asynchronous in the real backend: hold the completion back.
        let is_async = matches!(op, BackendOp::Read { .. } | BackendOp::Write { .. } | BackendOp::Flush { .. });
        let res = match res {
            Ok(Some(done)) if is_async && !st.sync_io => {
                st.pending.push((pid, done));
                Ok(None)
            }
            other => other,
        };
        st.history.push(BackendRec::Execute { step, pid, op, outcome, new_rid });
        res
    }

    fn process_completions(&mut self) -> Vec<(ProcessId, EffectResult)> {
        let mut st = self.0.lock().unwrap();
        let out = std::mem::take(&mut st.ready);
        let step = st.step;
        for (pid, r) in &out {
            let new_rid = match r {
                Ok((Value::Resource(rid, _), _)) => Some(*rid),
                _ => None,
            };
            st.history.push(BackendRec::Completed { step, pid: *pid, ok: r.is_ok(), new_rid });
        }
        out
    }

    fn close_resource(&mut self, resource_id: ResourceId) {
        let mut st = self.0.lock().unwrap();
        let was_file = st.open.remove(&resource_id).is_some();
        let was_dir = st.dirs.remove(&resource_id).is_some();
        let was_listener = st.listeners.remove(&resource_id).is_some();
        if was_listener {
            st.close_listener(resource_id);
        }
        let was_socket = match st.sockets.remove(&resource_id) {
            Some(end) => {
                st.close_socket_end(end);
                true
            }
            None => false,
        };
        let was_open = st.resolvers.remove(&resource_id).is_some() || was_file || was_dir || was_listener || was_socket;
        let step = st.step;
        st.history.push(BackendRec::AutoClose { step, rid: resource_id, was_open });
    }

    fn set_type_ids(&mut self, resources: &[String], results: &[(String, ResultTupleInfo)]) {
        let mut st = self.0.lock().unwrap();
        st.type_ids_pushed += 1;
        if let Some(i) = resources.iter().position(|n| n == "File") {
            st.file_type_id = i;
        }
        if let Some(i) = resources.iter().position(|n| n == "DnsResolver") {
            st.dns_type_id = i;
        }
        if let Some(i) = resources.iter().position(|n| n == "Dir") {
            st.dir_type_id = i;
        }
        if let Some(i) = resources.iter().position(|n| n == "TcpSocket") {
            st.socket_type_id = i;
        }
        if let Some(i) = resources.iter().position(|n| n == "TcpListener") {
            st.listener_type_id = i;
        }
        for (name, info) in results {
            st.result_infos.insert(name.clone(), (info.tuple_id, info.variants.iter().map(|(k, v)| (k.clone(), *v)).collect()));
        }
    }
}
