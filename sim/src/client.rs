//! The client: re-implementation of the quiver-cli glue (REPL loop and `quiv run`) as a small
//! state machine whose every action is one scheduler decision on the environment thread.

use crate::canon::{BinSrc, Names, canon};
use crate::world::World;
use quiver_compiler::compiler::ModuleCache;
use quiver_compiler::{Compiler, ModuleResolver, PackageResolver, parse};
use quiver_core::bytecode::Bytecode;
use quiver_core::program::Program;
use quiver_core::types::Type;
use quiver_core::value::Value;
use quiver_environment::{Repl, ReplError, RequestResult};
use serde::{Deserialize, Serialize};
use std::collections::HashMap;

#[derive(Clone, Debug, Serialize, Deserialize, PartialEq)]
pub enum Noise {
    Statuses,
    WorkerInfo,
    ProcInfo(usize),
    SubStatuses,
    SubWorkerInfo,
    SubProcInfo(usize),
    Unsub,
}

#[derive(Clone, Debug, Serialize, Deserialize, PartialEq)]
pub enum ClientOp {
    /// evaluate one REPL line in session `session`
    Line { session: usize, src: String },
    /// `quiv run`-style: compile, extract entry, optional tree-shake / JSON round trip, start, await result
    Run { src: String, shake: bool, json: bool, wait: bool },
    /// read every variable of a session (names, types from the Repl; values via request_variable)
    Vars { session: usize },
    /// fire-and-forget observer request
    Noise(Noise),
    /// wait for the result of the nth program started with Run { wait: false }
    WaitRun { nth: usize },
    /// the user edits a module of the session's package and reloads (`:r` in the REPL): the module's
    /// source is replaced and `Repl::reload_modules` gets a resolver over the edited package
    Reload { session: usize, path: Vec<String>, src: String },
}

#[derive(Clone, Debug, PartialEq, Serialize, Deserialize)]
pub enum Out {
    Value(String),
    NoCode,
    ParseError,
    CompileError(String),
    RuntimeError(String),
    EnvError(String),
    Vars(Vec<(String, String, String)>),
    Started,
    Skipped,
}

enum State {
    Idle,
    WaitTypes { req: u64 },
    WaitResult { req: u64 },
    WaitVar { req: u64, idx: usize, acc: Vec<(String, String, String)>, vars: Vec<(String, String)> },
}

pub struct Client {
    pub ops: Vec<ClientOp>,
    pub pc: usize,
    state: State,
    pub outs: Vec<Out>,
    pub sessions: Vec<Option<Repl<crate::transport::E>>>,
    pub modules: HashMap<Vec<String>, String>,
    pub names: Names,
    noise_reqs: Vec<u64>,
    subs: Vec<u64>,
    /// steps count at which each op finished (for liveness accounting)
    pub finished_at: Vec<u64>,
    /// env step counter value at last poll
    pub polled_since_env: bool,
    pub serde_mismatch: Vec<String>,
    pub run_pids: Vec<usize>,
    /// result requests issued mid-run by the scheduler (Decision::N): (request id, process id)
    pub result_probes: Vec<(u64, usize)>,
    /// their answers: (process id, answer)
    pub probe_answers: Vec<(usize, Result<(Value, Vec<Vec<u8>>), quiver_core::error::Error>)>,
    pub observer_requests: u64,
}

impl Client {
    pub fn new(ops: Vec<ClientOp>, modules: HashMap<Vec<String>, String>) -> Client {
        Client {
            ops,
            pc: 0,
            state: State::Idle,
            outs: Vec::new(),
            sessions: Vec::new(),
            modules,
            names: Names { fn_ids: true, ..Default::default() },
            noise_reqs: Vec::new(),
            subs: Vec::new(),
            finished_at: Vec::new(),
            polled_since_env: false,
            serde_mismatch: Vec::new(),
            run_pids: Vec::new(),
            result_probes: Vec::new(),
            probe_answers: Vec::new(),
            observer_requests: 0,
        }
    }

    pub fn done(&self) -> bool {
        self.pc >= self.ops.len() && matches!(self.state, State::Idle)
    }

    pub fn idle_with_work(&self) -> bool {
        matches!(self.state, State::Idle) && self.pc < self.ops.len()
    }

    pub fn waiting(&self) -> bool {
        !matches!(self.state, State::Idle)
    }

    fn finish(&mut self, out: Out, steps: u64) {
        self.outs.push(out);
        self.finished_at.push(steps);
        self.pc += 1;
        self.state = State::Idle;
    }

    fn session(&mut self, world: &mut World, s: usize) -> Result<(), String> {
        while self.sessions.len() <= s {
            self.sessions.push(None);
        }
        if self.sessions[s].is_none() {
            let resolver: Box<dyn ModuleResolver> = Box::new(PackageResolver::memory(self.modules.clone()));
            let repl = Repl::new(&mut world.env, resolver, world.builtins.clone()).map_err(|e| format!("{e}"))?;
            self.sessions[s] = Some(repl);
            world.scan_new_msgs();
        }
        Ok(())
    }

    fn render(&mut self, world: &World, v: &Value, heap: &[Vec<u8>]) -> String {
        self.names.pids = world.pid_names.clone();
        canon(v, &BinSrc::Extracted(heap), world.env.get_program(), &mut self.names)
    }

    /// One client action. Returns true if it made progress (issued or completed something).
    pub fn act(&mut self, world: &mut World) -> bool {
        world.begin_client_turn();
        // drain finished noise requests
        let mut i = 0;
        while i < self.noise_reqs.len() {
            match world.env.poll_request(self.noise_reqs[i]) {
                Ok(None) => i += 1,
                _ => {
                    self.noise_reqs.swap_remove(i);
                }
            }
        }
        self.drain_probes(world);
        let _ = world.env.take_subscription_updates();
        self.polled_since_env = true;
        let steps = world.steps;
        let state = std::mem::replace(&mut self.state, State::Idle);
        let progressed = match state {
            State::Idle => {
                if self.pc >= self.ops.len() {
                    return false;
                }
                let op = self.ops[self.pc].clone();
                match op {
                    ClientOp::Line { session, .. } => {
                        if let Err(e) = self.session(world, session) {
                            self.finish(Out::EnvError(e), steps);
                            return true;
                        }
                        match world.env.request_process_types() {
                            Ok(req) => self.state = State::WaitTypes { req },
                            Err(e) => self.finish(Out::EnvError(format!("{e}")), steps),
                        }
                        true
                    }
                    ClientOp::Run { src, shake, json, wait } => {
                        match self.start_run(world, &src, shake, json) {
                            Ok(pid) => {
                                self.run_pids.push(pid);
                                if wait {
                                    match world.env.request_result(pid, None) {
                                        Ok(req) => self.state = State::WaitResult { req },
                                        Err(e) => self.finish(Out::EnvError(format!("{e}")), steps),
                                    }
                                } else {
                                    self.finish(Out::Started, steps);
                                }
                            }
                            Err(out) => self.finish(out, steps),
                        }
                        true
                    }
                    ClientOp::Vars { session } => {
                        let vars = match self.sessions.get(session).and_then(|s| s.as_ref()) {
                            Some(r) => r.get_variables(),
                            None => {
                                self.finish(Out::Skipped, steps);
                                return true;
                            }
                        };
                        self.next_var(world, session, 0, Vec::new(), vars, steps);
                        true
                    }
                    ClientOp::Noise(n) => {
                        self.noise(world, &n);
                        self.finish(Out::Skipped, steps);
                        true
                    }
                    ClientOp::Reload { session, path, src } => {
                        self.modules.insert(path, src);
                        if let Some(Some(repl)) = self.sessions.get_mut(session) {
                            let resolver: Box<dyn ModuleResolver> = Box::new(PackageResolver::memory(self.modules.clone()));
                            repl.reload_modules(resolver);
                        }
                        self.finish(Out::Skipped, steps);
                        true
                    }
                    ClientOp::WaitRun { nth } => {
                        match self.run_pids.get(nth).copied() {
                            Some(pid) => match world.env.request_result(pid, None) {
                                Ok(req) => self.state = State::WaitResult { req },
                                Err(e) => self.finish(Out::EnvError(format!("{e}")), steps),
                            },
                            None => self.finish(Out::Skipped, steps),
                        }
                        true
                    }
                }
            }
            State::WaitTypes { req } => match world.env.poll_request(req) {
                Ok(None) => {
                    self.state = State::WaitTypes { req };
                    false
                }
                Ok(Some(RequestResult::ProcessTypes(types))) => {
                    let ClientOp::Line { session, src } = self.ops[self.pc].clone() else { unreachable!() };
                    let types: HashMap<usize, (Type, usize)> = types;
                    // `nowait>`: a client that does not wait for this line's result before entering the
                    // next one (quiver-web evaluates every queued line on its next tick)
                    let (src, nowait) = match src.strip_prefix("nowait>") {
                        Some(rest) => (rest.to_string(), true),
                        None => (src, false),
                    };
                    // `@?` stands for the newest process (REPL process references are by number)
                    let src = if src.contains("@?") { src.replace("@?", &format!("@{}", types.keys().max().copied().unwrap_or(0))) } else { src };
                    let repl = self.sessions[session].as_mut().unwrap();
                    // `@!` stands for the session's own process
                    let src = if src.contains("@!") { src.replace("@!", &format!("@{}", repl.process_id())) } else { src };
                    let r = std::panic::catch_unwind(std::panic::AssertUnwindSafe(|| repl.evaluate(&mut world.env, &src, types)));
                    world.scan_new_msgs();
                    match r {
                        Err(p) => {
                            let msg = crate::world::panic_msg(&p);
                            self.finish(Out::EnvError(format!("PANIC in Repl::evaluate: {msg}")), steps);
                        }
                        Ok(Ok(Some(_))) if nowait => self.finish(Out::Started, steps),
                        Ok(Ok(Some(req))) => self.state = State::WaitResult { req },
                        Ok(Ok(None)) => self.finish(Out::NoCode, steps),
                        Ok(Err(ReplError::Parser(_))) => self.finish(Out::ParseError, steps),
                        Ok(Err(ReplError::Compiler(e))) => self.finish(Out::CompileError(format!("{:?}", e)), steps),
                        Ok(Err(ReplError::Runtime(e))) => self.finish(Out::RuntimeError(format!("{:?}", e)), steps),
                        Ok(Err(ReplError::Environment(e))) => self.finish(Out::EnvError(format!("{e}")), steps),
                    }
                    true
                }
                Ok(Some(_)) => {
                    self.finish(Out::EnvError("unexpected result type for process types".into()), steps);
                    true
                }
                Err(e) => {
                    self.finish(Out::EnvError(format!("{e}")), steps);
                    true
                }
            },
            State::WaitResult { req } => match world.env.poll_request(req) {
                Ok(None) => {
                    self.state = State::WaitResult { req };
                    false
                }
                Ok(Some(RequestResult::Result(Ok((v, heap)), _))) => {
                    let s = self.render(world, &v, &heap);
                    self.finish(Out::Value(s), steps);
                    true
                }
                Ok(Some(RequestResult::Result(Err(e), _))) => {
                    // like quiver-cli's REPL loop: a runtime error ends the session; the next line
                    // starts a fresh Repl (new persistent process, no variables)
                    // (unless the run models the web glue, which keeps the session)
                    if !world.cfg.keep_session_after_error
                        && let Some(ClientOp::Line { session, .. }) = self.ops.get(self.pc).cloned()
                        && let Some(slot) = self.sessions.get_mut(session)
                    {
                        *slot = None;
                    }
                    self.finish(Out::RuntimeError(format!("{:?}", e)), steps);
                    true
                }
                Ok(Some(_)) => {
                    self.finish(Out::EnvError("unexpected result type".into()), steps);
                    true
                }
                Err(e) => {
                    self.finish(Out::EnvError(format!("{e}")), steps);
                    true
                }
            },
            State::WaitVar { req, idx, mut acc, vars } => match world.env.poll_request(req) {
                Ok(None) => {
                    self.state = State::WaitVar { req, idx, acc, vars };
                    false
                }
                Ok(Some(RequestResult::Locals(locals))) => {
                    let ClientOp::Vars { session } = self.ops[self.pc].clone() else { unreachable!() };
                    let s = match locals.first() {
                        Some((v, heap)) => self.render(world, v, heap),
                        None => "<missing>".to_string(),
                    };
                    acc.push((vars[idx].0.clone(), vars[idx].1.clone(), s));
                    self.next_var(world, session, idx + 1, acc, vars, steps);
                    true
                }
                Ok(Some(_)) => {
                    self.finish(Out::EnvError("unexpected result type for locals".into()), steps);
                    true
                }
                Err(e) => {
                    acc.push((vars[idx].0.clone(), vars[idx].1.clone(), format!("<error {e}>")));
                    let ClientOp::Vars { session } = self.ops[self.pc].clone() else { unreachable!() };
                    self.next_var(world, session, idx + 1, acc, vars, steps);
                    true
                }
            },
        };
        world.scan_new_msgs();
        progressed
    }

    fn next_var(&mut self, world: &mut World, session: usize, idx: usize, acc: Vec<(String, String, String)>, vars: Vec<(String, String)>, steps: u64) {
        if idx >= vars.len() {
            self.finish(Out::Vars(acc), steps);
            return;
        }
        let name = vars[idx].0.clone();
        let repl = self.sessions[session].as_mut().unwrap();
        match repl.request_variable(&mut world.env, &name) {
            Ok(req) => self.state = State::WaitVar { req, idx, acc, vars },
            Err(e) => {
                let mut acc = acc;
                acc.push((name, vars[idx].1.clone(), format!("<error {e}>")));
                self.next_var(world, session, idx + 1, acc, vars, steps);
            }
        }
    }

    /// Collect the answers of the mid-run result requests that have arrived.
    pub fn drain_probes(&mut self, world: &mut World) {
        let mut i = 0;
        while i < self.result_probes.len() {
            let (req, pid) = self.result_probes[i];
            match world.env.poll_request(req) {
                Ok(None) => i += 1,
                Ok(Some(RequestResult::Result(r, _))) => {
                    self.probe_answers.push((pid, r));
                    self.result_probes.swap_remove(i);
                }
                _ => {
                    self.result_probes.swap_remove(i);
                }
            }
        }
    }

    /// An observer request issued at a moment the scheduler chose (Decision::N), independent of what
    /// the client script is doing: a host UI polling statuses, or somebody asking for the result of a
    /// process that is still running. Spawned processes only for the result requests (the session's
    /// own process changes its result from line to line).
    pub fn inject_observer(&mut self, world: &mut World, k: u64) {
        world.begin_client_turn();
        self.observer_requests += 1;
        let pids: Vec<usize> = world.pid_names.keys().copied().collect();
        let sel = (k / 8) as usize;
        let r = match k % 8 {
            0 => world.env.request_statuses().map(Some),
            1 => world.env.request_worker_info().map(Some),
            2 | 3 if !pids.is_empty() => world.env.request_process_info(pids[sel % pids.len()]).map(Some),
            4..=7 => {
                let spawned: Vec<usize> = world.pid_names.iter().filter(|(_, n)| n.contains('/')).map(|(p, _)| *p).collect();
                if spawned.is_empty() {
                    Ok(None)
                } else {
                    let pid = spawned[sel % spawned.len()];
                    match world.env.request_result(pid, None) {
                        Ok(req) => {
                            self.result_probes.push((req, pid));
                            Ok(None)
                        }
                        Err(e) => Err(e),
                    }
                }
            }
            _ => Ok(None),
        };
        if let Ok(Some(req)) = r {
            self.noise_reqs.push(req);
        }
        world.scan_new_msgs();
    }

    fn noise(&mut self, world: &mut World, n: &Noise) {
        let pids: Vec<usize> = world.pid_names.keys().copied().collect();
        let r = match n {
            Noise::Statuses => world.env.request_statuses().map(Some),
            Noise::WorkerInfo => world.env.request_worker_info().map(Some),
            Noise::ProcInfo(k) => {
                if pids.is_empty() {
                    Ok(None)
                } else {
                    world.env.request_process_info(pids[k % pids.len()]).map(Some)
                }
            }
            Noise::SubStatuses => world.env.subscribe_process_statuses().map(|s| {
                self.subs.push(s);
                None
            }),
            Noise::SubWorkerInfo => world.env.subscribe_worker_info().map(|s| {
                self.subs.push(s);
                None
            }),
            Noise::SubProcInfo(k) => {
                if pids.is_empty() {
                    Ok(None)
                } else {
                    world.env.subscribe_process_info(pids[k % pids.len()]).map(|s| {
                        self.subs.push(s);
                        None
                    })
                }
            }
            Noise::Unsub => {
                if let Some(s) = self.subs.pop() {
                    world.env.unsubscribe(s).map(|_| None)
                } else {
                    Ok(None)
                }
            }
        };
        if let Ok(Some(req)) = r {
            self.noise_reqs.push(req);
        }
    }

    fn start_run(&mut self, world: &mut World, src: &str, shake: bool, json: bool) -> Result<usize, Out> {
        let resolver = PackageResolver::memory(self.modules.clone());
        let (program, entry) = compile_and_extract_entry(src, &resolver, &world.builtins)?;
        let bytecode = if shake { program.to_bytecode_optimized(entry) } else { program.to_bytecode(Some(entry)) };
        let bytecode = if json {
            let s = serde_json::to_string_pretty(&bytecode).map_err(|e| Out::EnvError(format!("serialize: {e}")))?;
            let back: Bytecode = serde_json::from_str(&s).map_err(|e| Out::EnvError(format!("deserialize: {e}")))?;
            let s2 = serde_json::to_string_pretty(&back).map_err(|e| Out::EnvError(format!("serialize: {e}")))?;
            if s != s2 {
                self.serde_mismatch.push("Bytecode differs after JSON round trip".to_string());
            }
            back
        } else {
            bytecode
        };
        let r = std::panic::catch_unwind(std::panic::AssertUnwindSafe(|| world.env.start_process(Some(bytecode))));
        world.scan_new_msgs();
        match r {
            Ok(Ok(pid)) => Ok(pid),
            Ok(Err(e)) => Err(Out::EnvError(format!("{e}"))),
            Err(p) => Err(Out::EnvError(format!("PANIC in start_process: {}", crate::world::panic_msg(&p)))),
        }
    }
}

/// Mirrors quiver-cli/src/main.rs `compile_and_extract_entry` (private to the binary).
pub fn compile_and_extract_entry(
    source: &str,
    resolver: &dyn ModuleResolver,
    builtins: &quiver_core::builtins::BuiltinRegistry<crate::transport::E>,
) -> Result<(Program, usize), Out> {
    let ast = parse(source).map_err(|_| Out::ParseError)?;
    let mut program = Program::new();
    let mut module_cache = ModuleCache::new();
    let compiled = Compiler::compile(
        ast,
        &HashMap::new(),
        &mut module_cache,
        resolver,
        &mut program,
        quiver_core::types::NIL,
        &HashMap::new(),
        builtins,
        None,
    )
    .map_err(|e| Out::CompileError(format!("{:?}", e.error)))?;
    let nil_type_id = program.register_type(Type::nil());
    let callable_type_id = program.register_type(Type::Callable {
        parameter: nil_type_id,
        result: compiled.result_type,
        receive: compiled.receive_type,
    });
    let function_index = program.register_function(quiver_core::bytecode::Function {
        instructions: compiled.instructions,
        captures: 0,
        type_id: callable_type_id,
    });
    let bytecode = program.to_bytecode(Some(function_index));
    let (result, executor) =
        quiver_core::execute_bytecode_sync(bytecode, builtins, false).map_err(|e| Out::RuntimeError(format!("{:?}", e)))?;
    let entry = match result {
        Value::Function(func_index, captures) => {
            if !captures.is_empty() {
                program.inject_function_captures(func_index, (*captures).clone(), &executor)
            } else {
                func_index
            }
        }
        _ => return Err(Out::CompileError("Program is not executable. Must evaluate to a function.".into())),
    };
    Ok((program, entry))
}
