//! C06 — binary heap accounting: no leak, no premature free, no aliasing damage.

use super::{Property, RefData, Scenario, Tier};
use crate::client::{Client, ClientOp, Out};
use crate::rng::Rng;
use crate::run::{EndState, Monitor, RunResult, Violation};
use crate::world::{Decision, StepOutcome, World};
use quiver_core::value::{Binary, Value};
use quiver_environment::{Command, Event};
use std::collections::{BTreeMap, BTreeSet, HashMap, HashSet};

pub struct C06;

pub const SPX: &str = "spx = #['int, 'bin] { | =[0, acc] => acc | =[n, acc] => [[n, 1] __integer_subtract__, [acc, 0x01] __binary_concat__] ^ }";
pub const SPB: &str = "spb = #['int, 'bin] { | =[0, acc] => acc | =[n, acc] => [[n, 1] __integer_subtract__, [acc, 0x00] __binary_concat__] ^ }";

/// Generator of distinct binary expressions with known bytes.
pub struct BinGen {
    ctr: u8,
}

impl BinGen {
    pub fn new() -> BinGen {
        BinGen { ctr: 0x10 }
    }
    fn piece(&mut self, rng: &mut Rng) -> (String, Vec<u8>) {
        let n = 1 + rng.usize(3);
        let mut b = Vec::new();
        for _ in 0..n {
            self.ctr = self.ctr.wrapping_add(1);
            if self.ctr == 0 {
                self.ctr = 0x11;
            }
            b.push(self.ctr);
        }
        (format!("0x{}", crate::canon::hex(&b)), b)
    }
    /// a literal (constant) binary
    pub fn lit(&mut self, rng: &mut Rng) -> (String, Vec<u8>) {
        self.piece(rng)
    }
    /// a heap binary expression (rope of depth 1-3, or a repeat, or a slice)
    pub fn heap(&mut self, rng: &mut Rng) -> (String, Vec<u8>) {
        match rng.below(7) {
            6 => {
                // a window into a tiling that starts mid-unit, runs over whole units and ends mid-unit
                let mut unit = Vec::new();
                for _ in 0..(2 + rng.usize(3)) {
                    self.ctr = self.ctr.wrapping_add(1).max(0x11);
                    unit.push(self.ctr);
                }
                let n = 3 + rng.usize(4);
                let all = unit.repeat(n);
                let start = 1 + rng.usize(unit.len() - 1);
                let mut end = all.len() - 1 - rng.usize(unit.len() - 1);
                if end % unit.len() == 0 {
                    end -= 1;
                }
                (format!("[[0x{}, {n}] __binary_repeat__, {start}, {end}] __binary_slice__", crate::canon::hex(&unit)), all[start..end].to_vec())
            }
            0 => {
                let (p, b) = self.piece(rng);
                let n = 2 + rng.usize(3);
                (format!("[{p}, {n}] __binary_repeat__"), b.repeat(n))
            }
            1 => {
                let (e, b) = self.concat(rng, 2);
                if b.len() >= 3 {
                    (format!("[{e}, 1, {}] __binary_slice__", b.len() - 1), b[1..b.len() - 1].to_vec())
                } else {
                    (e, b)
                }
            }
            2 => self.concat(rng, 3),
            _ => self.concat(rng, 1),
        }
    }
    fn concat(&mut self, rng: &mut Rng, depth: u32) -> (String, Vec<u8>) {
        let (l, lb) = if depth > 1 && rng.chance(1, 2) { self.concat(rng, depth - 1) } else { self.piece(rng) };
        let (r, rb) = if depth > 1 && rng.chance(1, 2) { self.concat(rng, depth - 1) } else { self.piece(rng) };
        let mut b = lb;
        b.extend(rb);
        (format!("[{l}, {r}] __binary_concat__"), b)
    }
}

fn cat(a: &[u8], b: &[u8]) -> Vec<u8> {
    let mut v = a.to_vec();
    v.extend_from_slice(b);
    v
}

/// What a filter answers with: a constant, the message itself, or a fresh heap binary built from it
/// (the verdict is only a verdict, but its storage has to be accounted for like any other value).
fn verdict(rng: &mut Rng) -> &'static str {
    *rng.pick(&["Ok", "Ok", "m", "[m, 0x01] __binary_concat__", "[[m, m] __binary_concat__, 7]"])
}

/// One episode: statements (grouped; a group may become a REPL line) and the bytes of `r{k}`.
fn episode(k: usize, kind: u64, rng: &mut Rng, g: &mut BinGen) -> (Vec<String>, Vec<u8>) {
    let mut st = Vec::new();
    let exp;
    match kind {
        0 => {
            let (x, xb) = g.heap(rng);
            st.push(format!("a{k} = {x}"));
            st.push(format!("r{k} = [a{k}, a{k}] __binary_concat__"));
            exp = cat(&xb, &xb);
        }
        1 => {
            let (x, xb) = g.heap(rng);
            let (y, yb) = g.lit(rng);
            st.push(format!("a{k} = {x}"));
            st.push(format!("f{k} = #{{ [a{k}, {y}] __binary_concat__ }}"));
            st.push(format!("r{k} = f{k}"));
            exp = cat(&xb, &yb);
        }
        2 => {
            let (x, xb) = g.heap(rng);
            let (y, yb) = g.lit(rng);
            st.push(format!("a{k} = {x}"));
            st.push(format!("c{k} = @{{ [a{k}, {y}] __binary_concat__ }}"));
            st.push(format!("r{k} = !c{k}"));
            exp = cat(&xb, &yb);
        }
        3 => {
            let (x, xb) = g.heap(rng);
            let (y, yb) = g.lit(rng);
            st.push(format!("a{k} = {x}"));
            st.push(format!("c{k} = a{k} @#'bin {{ [~, {y}] __binary_concat__ }}"));
            st.push(format!("r{k} = !c{k}"));
            exp = cat(&xb, &yb);
        }
        4 => {
            // spawn with a heap-binary capture and a heap-binary argument
            let (x, xb) = g.heap(rng);
            let (z, zb) = g.heap(rng);
            st.push(format!("k{k} = {x}"));
            st.push(format!("f{k} = #['bin, 'int] {{ =[b, n], [b, k{k}] __binary_concat__ }}"));
            st.push(format!("p{k} = [{z}, 5] @f{k}"));
            st.push(format!("r{k} = !p{k}"));
            exp = cat(&zb, &xb);
        }
        5 => {
            let (x, xb) = g.heap(rng);
            let (y, yb) = g.lit(rng);
            st.push(format!("e{k} = @#{{ m = !'bin, [m, {y}] __binary_concat__ }}"));
            st.push(format!("{x} e{k}"));
            st.push(format!("r{k} = !e{k}"));
            exp = cat(&xb, &yb);
        }
        6 => {
            let (x, xb) = g.heap(rng);
            let (y, yb) = g.heap(rng);
            st.push(format!("e{k} = @#{{ !#['bin, 'bin] =[x, y], [y, x] __binary_concat__ }}"));
            st.push(format!("[{x}, {y}] e{k}"));
            st.push(format!("r{k} = !e{k}"));
            exp = cat(&yb, &xb);
        }
        7 => {
            let (x, xb) = g.heap(rng);
            let (y, yb) = g.lit(rng);
            st.push(format!("a{k} = {x}"));
            st.push(format!("g{k} = #{{ [a{k}, {y}] __binary_concat__ }}"));
            st.push(format!("e{k} = @#{{ g = !#(#[] -> 'bin), g }}"));
            st.push(format!("&g{k} e{k}"));
            st.push(format!("r{k} = !e{k}"));
            exp = cat(&xb, &yb);
        }
        8 => {
            // awaited twice
            let (x, xb) = g.heap(rng);
            st.push(format!("c{k} = @{{ {x} }}"));
            st.push(format!("q{k} = !c{k}"));
            st.push(format!("r{k} = !c{k}"));
            exp = xb;
        }
        9 => {
            // several awaiters of one result
            let (x, xb) = g.heap(rng);
            st.push(format!("c{k} = @{{ {x} }}"));
            st.push(format!("w{k} = &c{k} @#(@-> 'bin) {{ =p, !p }}"));
            st.push(format!("v{k} = &c{k} @#(@-> 'bin) {{ =p, !p }}"));
            st.push(format!("q{k} = !w{k}"));
            st.push(format!("r{k} = !v{k}"));
            exp = xb;
        }
        10 => {
            // filter closing over a heap binary; a rejected message stays in the mailbox
            let (x, xb) = g.heap(rng);
            let (n, _) = g.heap(rng);
            // an equal-content binary built by a different expression
            let lit = format!("0x{}", crate::canon::hex(&xb));
            st.push(format!("y{k} = {x}"));
            st.push(format!("e{k} = @{{ ! [#'bin {{ =m, [m, y{k}] =[x, x] }}] }}"));
            st.push(format!("{n} e{k}"));
            st.push(format!("[{lit}, 0x] __binary_concat__ e{k}"));
            st.push(format!("r{k} = !e{k}"));
            exp = xb;
        }
        11 => {
            // binaries left in the mailbox of a process that finishes without taking them
            let (x, _) = g.heap(rng);
            let (y, yb) = g.heap(rng);
            st.push(format!("e{k} = @{{ ! [#('int | 'bin) {{ ='int => Ok }}], 0x00 }}"));
            st.push(format!("{x} e{k}"));
            st.push(format!("5 e{k}"));
            st.push(format!("q{k} = !e{k}"));
            st.push(format!("r{k} = {y}"));
            exp = yb;
        }
        12 => {
            // server loop that receives and drops binaries
            let n = 1 + rng.usize(4);
            st.push(format!("s{k} = {n} @#'int {{ | =0 => 0x00 | =k => {{ m = !'bin, [k, 1] __integer_subtract__ ^ }} }}"));
            for _ in 0..n {
                let (x, _) = g.heap(rng);
                st.push(format!("{x} s{k}"));
            }
            st.push(format!("r{k} = !s{k}"));
            exp = vec![0];
        }
        13 => {
            // held across reclamation cycles of other binaries
            let (x, xb) = g.heap(rng);
            let n = 2 + rng.usize(8);
            st.push(format!("a{k} = {x}"));
            st.push(format!("w{k} = [{n}, 0xaa] spb"));
            st.push(format!("r{k} = [a{k}, w{k}] __binary_concat__"));
            let mut e = cat(&xb, &[0xaa]);
            e.extend(std::iter::repeat_n(0u8, n));
            exp = e;
        }
        14 => {
            // constant cache
            let (y, yb) = g.lit(rng);
            st.push(format!("x{k} = {y}"));
            st.push(format!("r{k} = [x{k}, x{k}] __binary_concat__"));
            exp = cat(&yb, &yb);
        }
        15 => {
            // the same unfinished process listed in consecutive selects that time out, then awaited:
            // every select registers for its result again
            let (x, xb) = g.heap(rng);
            let cs = *rng.pick(&[30u32, 90, 200, 400]);
            let n = 1 + rng.usize(3);
            let sels: Vec<String> = (0..n).map(|i| format!("t{i} = [! [p, {}]]", 1 + rng.below(3))).collect();
            st.push(format!("c{k} = @{{ w = [{cs}, 0] spin, {x} }}"));
            if rng.chance(1, 2) {
                st.push(format!("e{k} = &c{k} @#(@-> 'bin) {{ =p, {}, !p }}", sels.join(", ")));
                st.push(format!("r{k} = !e{k}"));
            } else {
                for i in 0..n {
                    st.push(format!("t{k}x{i} = [! [c{k}, {}]]", 1 + rng.below(3)));
                }
                st.push(format!("r{k} = !c{k}"));
            }
            exp = xb;
        }
        19 => {
            // a result that arrives for a select which lists the process twice, or next to a receive
            // that already holds a binary
            let (x, xb) = g.heap(rng);
            let (y, _) = g.heap(rng);
            let cs = *rng.pick(&[5u32, 30, 90]);
            st.push(format!("c{k} = @{{ w = [{cs}, 0] spin, {x} }}"));
            st.push(format!("e{k} = &c{k} @#(@-> 'bin) {{ =p, a = [! [#'bin, p, 3]], b = [! [p, p, 2]], !p }}"));
            if rng.chance(1, 2) {
                st.push(format!("{y} e{k}"));
            }
            st.push(format!("r{k} = !e{k}"));
            exp = xb;
        }
        16 => {
            // a body-less higher-priority receive wins while a lower-priority filter is in flight on a
            // heap-binary message; the binary is received and dropped afterwards
            let (x, _) = g.heap(rng);
            let (y, yb) = g.heap(rng);
            let s = *rng.pick(&[4u32, 15, 40, 120]);
            let vd = verdict(rng);
            st.push(format!("e{k} = @{{ a = ! [#'int, #'bin {{ =m, w = [{s}, 0] spin, {vd} }}], b = ! [#'int, #'bin], 0x00 }}"));
            st.push(format!("{x} e{k}"));
            if rng.chance(1, 2) {
                st.push(format!("w{k} = [{}, 0] spin", *rng.pick(&[5u32, 30, 90])));
            }
            st.push(format!("5 e{k}"));
            st.push(format!("q{k} = !e{k}"));
            st.push(format!("r{k} = {y}"));
            exp = yb;
        }
        17 => {
            // an awaited process finishes while a lower-priority filter is in flight on a heap binary
            let (x, _) = g.heap(rng);
            let (y, yb) = g.heap(rng);
            let s = *rng.pick(&[15u32, 40, 120]);
            let cs = *rng.pick(&[5u32, 30, 90]);
            st.push(format!("c{k} = @{{ [{cs}, 0] spin }}"));
            let vd = verdict(rng);
            st.push(format!("e{k} = &c{k} @#(@-> 'int) {{ =p, a = ! [p, #'bin {{ =m, w = [{s}, 0] spin, {vd} }}], b = ! [#'bin, 50], 0x00 }}"));
            st.push(format!("{x} e{k}"));
            st.push(format!("q{k} = !e{k}"));
            st.push(format!("r{k} = {y}"));
            exp = yb;
        }
        18 => {
            // a timeout written first elapses while a lower-priority filter is in flight on a heap binary
            let (x, _) = g.heap(rng);
            let (y, yb) = g.heap(rng);
            let s = *rng.pick(&[40u32, 120, 300]);
            let vd = verdict(rng);
            st.push(format!("e{k} = @{{ a = ! [2, #'bin {{ =m, w = [{s}, 0] spin, {vd} }}], b = ! [#'bin, 300], 0x00 }}"));
            st.push(format!("{x} e{k}"));
            st.push(format!("q{k} = !e{k}"));
            st.push(format!("r{k} = {y}"));
            exp = yb;
        }
        20 => {
            // repeated binder -> Equal on heap binaries
            let (x, xb) = g.heap(rng);
            st.push(format!("a{k} = {x}"));
            st.push(format!("r{k} = [a{k}, a{k}] {{ =[x, x] => x | 0x }}"));
            exp = xb;
        }
        21 => {
            // Get on nested tuples holding the same binary twice
            let (x, xb) = g.heap(rng);
            let (l1, _) = g.lit(rng);
            let (l2, _) = g.lit(rng);
            st.push(format!("a{k} = {x}"));
            st.push(format!("t{k} = [[a{k}, {l1}], [{l2}, a{k}]]"));
            st.push(format!("r{k} = [t{k}.0.0, t{k}.1.1] __binary_concat__"));
            exp = cat(&xb, &xb);
        }
        22 => {
            // the same heap binary twice in one message (index dedup in extract/inject)
            let (x, xb) = g.heap(rng);
            st.push(format!("a{k} = {x}"));
            st.push(format!("e{k} = @#{{ !#['bin, 'bin] =[x, y], [y, x] __binary_concat__ }}"));
            st.push(format!("[a{k}, a{k}] e{k}"));
            st.push(format!("r{k} = !e{k}"));
            exp = cat(&xb, &xb);
        }
        23 => {
            // a constant and a heap binary in one message
            let (x, xb) = g.heap(rng);
            let (l, lb) = g.lit(rng);
            st.push(format!("a{k} = {x}"));
            st.push(format!("e{k} = @#{{ !#['bin, 'bin] =[x, y], [y, x] __binary_concat__ }}"));
            st.push(format!("[{l}, a{k}] e{k}"));
            st.push(format!("r{k} = !e{k}"));
            exp = cat(&xb, &lb);
        }
        24 => {
            // a process that fails while holding binaries in locals and on the stack (not awaited)
            let (x, _) = g.heap(rng);
            let (y, yb) = g.heap(rng);
            let how = if rng.chance(1, 2) { "[1, 0] __integer_divide__".to_string() } else { "[x, 99, 100] __binary_slice__".to_string() };
            st.push(format!("c{k} = @{{ x = {x}, z = [x, x] __binary_concat__, [[z, x], {how}] }}"));
            st.push(format!("r{k} = {y}"));
            exp = yb;
        }
        25 => {
            // a binary produced by an effect completion (file read) and one consumed by an effect (write)
            let (x, xb) = g.heap(rng);
            let (l, lb) = g.lit(rng);
            st.push(format!("a{k} = {x}"));
            st.push(format!("f{k} = [\"/c06_{k}\" .0, 577, 420] __file_open__"));
            st.push(format!("w{k} = [f{k}, 0, a{k}] __file_write__"));
            st.push(format!("d{k} = [f{k}, 0, 64] __file_read__"));
            st.push(format!("f{k} __file_close__"));
            st.push(format!("r{k} = [d{k}, {l}] __binary_concat__"));
            exp = cat(&xb, &lb);
        }
        26 => {
            // slice of a slice, concat with the empty binary
            let (x, xb) = g.concat(rng, 3);
            if xb.len() >= 5 {
                st.push(format!("a{k} = {x}"));
                st.push(format!("s{k} = [[a{k}, 1, {}] __binary_slice__, 1, {}] __binary_slice__", xb.len() - 1, xb.len() - 3));
                st.push(format!("r{k} = [[0x, s{k}] __binary_concat__, 0x] __binary_concat__"));
                exp = xb[2..xb.len() - 2].to_vec();
            } else {
                st.push(format!("r{k} = [{x}, 0x] __binary_concat__"));
                exp = xb;
            }
        }
        27 => {
            // tail calls between closures that captured heap binaries
            let (x, xb) = g.heap(rng);
            let (y, yb) = g.heap(rng);
            let (l, lb) = g.lit(rng);
            st.push(format!("ca{k} = {x}"));
            st.push(format!("cb{k} = {y}"));
            st.push(format!("g{k} = #'bin {{ [~, cb{k}] __binary_concat__ }}"));
            st.push(format!("f{k} = #'bin {{ [~, ca{k}] __binary_concat__ ^g{k} }}"));
            st.push(format!("r{k} = {l} f{k}"));
            exp = cat(&cat(&lb, &xb), &yb);
        }
        28 => {
            // a deep rope built by a loop
            let (x, xb) = g.heap(rng);
            let n = 5 + rng.usize(25);
            st.push(format!("r{k} = [{n}, {x}] spx"));
            let mut e = xb;
            e.extend(std::iter::repeat_n(1u8, n));
            exp = e;
        }
        30 => {
            // a process that fails inside a receive filter while the select holds a heap-binary candidate
            // (and sources that captured one); it is not awaited
            let (x, _) = g.heap(rng);
            let (y, yb) = g.heap(rng);
            let (c, _) = g.heap(rng);
            let s = *rng.pick(&[0u32, 4, 40]);
            st.push(format!("k{k} = {c}"));
            st.push(format!("e{k} = @{{ a = ! [#'int, #'bin {{ =m, w = [{s}, 0] spin, z = [m, k{k}] __binary_concat__, [1, 0] __integer_divide__ }}], 0x00 }}"));
            st.push(format!("{x} e{k}"));
            st.push(format!("r{k} = {y}"));
            exp = yb;
        }
        31 => {
            // the same with an int candidate: only the filter closure holds a binary made at run time
            let (y, yb) = g.heap(rng);
            let (c, _) = g.heap(rng);
            st.push(format!("k{k} = {c}"));
            st.push(format!("e{k} = @{{ a = ! [#'int {{ =m, z = [k{k}, k{k}] __binary_concat__, [m, 0] __integer_modulo__ }}], 0x00 }}"));
            st.push(format!("7 e{k}"));
            st.push(format!("r{k} = {y}"));
            exp = yb;
        }
        33 => {
            // a select that ENDS IN AN ERROR (a listed process fails) while one of its sources is a
            // filter closure that captured a binary made by the selecting process itself: the source
            // list must be released with everything else the failed process held
            let (x, _) = g.heap(rng);
            let (y, yb) = g.heap(rng);
            st.push(format!("c{k} = @{{ m = !'int, [m, 0] __integer_divide__ }}"));
            st.push(format!("e{k} = @{{ kk = {x}, ! [c{k}, #'int {{ =m, z = [kk, kk] __binary_concat__, [] }}] }}"));
            if rng.chance(1, 2) {
                st.push(format!("7 e{k}"));
            }
            st.push(format!("1 c{k}"));
            st.push(format!("r{k} = {y}"));
            exp = yb;
        }
        32 => {
            // binaries through a loopback TCP connection: written by one process, read, doubled and
            // written back by another (effect requests and completions carrying heap binaries in both
            // directions, across workers)
            let (x, xb) = g.heap(rng);
            let (l, lb) = g.lit(rng);
            let port = 9100 + k;
            st.push(format!("l{k} = [{port}, 4] __tcp_listen__"));
            st.push(format!("e{k} = @{{ s = [0x7f000001, {port}] __tcp_connect__, d = [s, 64] __tcp_socket_read__, n = [s, [d, d] __binary_concat__] __tcp_socket_write__, s __tcp_socket_close__, 0x00 }}"));
            st.push(format!("c{k} = l{k} __tcp_listener_accept__"));
            st.push(format!("a{k} = {x}"));
            st.push(format!("n{k} = [c{k}, a{k}] __tcp_socket_write__"));
            st.push(format!("d{k} = [c{k}, 256] __tcp_socket_read__"));
            st.push(format!("c{k} __tcp_socket_close__"));
            st.push(format!("l{k} __tcp_listener_close__"));
            st.push(format!("r{k} = [d{k}, {l}] __binary_concat__"));
            exp = cat(&cat(&xb, &xb), &lb);
        }
        _ => {
            // two filter sources: a message for the higher-priority one can arrive while the
            // lower-priority filter is in flight
            let (x, _) = g.heap(rng);
            let (y, yb) = g.heap(rng);
            let s = *rng.pick(&[4u32, 15, 40]);
            let vd = verdict(rng);
            st.push(format!("e{k} = @{{ a = ! [#'int {{ =m, w = [{s}, 0] spin, Ok }}, #'bin {{ =m, w = [{s}, 0] spin, {vd} }}], b = ! [#'int, #'bin], 0x00 }}"));
            st.push(format!("{x} e{k}"));
            st.push(format!("5 e{k}"));
            st.push(format!("q{k} = !e{k}"));
            st.push(format!("r{k} = {y}"));
            exp = yb;
        }
    }
    (st, exp)
}

pub const NKINDS: u64 = 34;

impl Property for C06 {
    fn id(&self) -> &'static str {
        "C06"
    }
    fn cases(&self, tier: Tier) -> usize {
        match tier {
            Tier::Quick => 800,
            Tier::Thorough => 3200,
        }
    }
    fn variants(&self, tier: Tier) -> usize {
        match tier {
            Tier::Quick => 30,
            Tier::Thorough => 220,
        }
    }
    fn max_workers(&self) -> usize {
        4
    }
    fn rule_text(&self) -> &'static str {
        "cases: programs dominated by heap binaries (ropes from concat/repeat/slice plus literals for the constant cache) stored in locals and closures, captured by and passed to spawned processes (capture and argument together), sent bare / nested in tuples / inside function captures, awaited once, twice and by several awaiters, filtered by closures that captured a heap binary, left in mailboxes, dropped by server loops, held across reclamation of other binaries, and rebound/shadowed across REPL lines (compaction, orphan release); quantum weighted to 1-3. After every worker turn: count>0 <=> reachable, no reachable slot reclaimed, free-pool well-formed, no slot that is neither reachable nor reclaimed nor queued for reclamation, live slots keep their bytes (shadow copy), and the client result equals the model bytes. Non-trivial: >=2 workers, >=1 out-of-order handled message, conclusive. Distinct = distinct (scenario shape, interleaving hash)."
    }
    fn required_probes(&self) -> Vec<&'static str> {
        vec![
            "only_via_stack",
            "only_via_locals",
            "only_via_mailbox",
            "only_via_result",
            "via_select_sources",
            "via_select_receiving",
            "only_via_awaiting",
            "via_closure_capture",
            "via_tuple_field",
            "via_constant_cache",
            "in_flight_spawn_with_heap",
            "in_flight_message_with_heap",
            "slot_reused_after_reclaim",
            "repl_compaction_with_heap_locals",
            "terminated_process_holds_no_storage",
        ]
    }
    fn draw_cfg(&self, rng: &mut Rng, scn: &Scenario) -> crate::world::RunCfg {
        super::default_cfg(rng, scn)
    }
    fn generate(&self, rng: &mut Rng, _tier: Tier) -> Scenario {
        let mut g = BinGen::new();
        let mut h = crate::rng::Fnv::default();
        let neps = 1 + rng.usize(4);
        let mut groups: Vec<Vec<String>> = Vec::new();
        let mut exps: Vec<Vec<u8>> = Vec::new();
        for k in 0..neps {
            let kind = rng.below(NKINDS);
            h.u64(kind);
            let (st, e) = episode(k, kind, rng, &mut g);
            groups.push(st);
            exps.push(e);
        }
        // rebinds / shadowing of results (exercise REPL compaction when split into lines)
        let nre = rng.usize(3);
        for _ in 0..nre {
            let j = rng.usize(neps);
            let (y, yb) = g.lit(rng);
            groups.push(vec![format!("r{j} = [r{j}, {y}] __binary_concat__")]);
            exps[j] = cat(&exps[j], &yb);
            h.u64(100 + j as u64);
        }
        let fin = format!("[{}]", (0..neps).map(|k| format!("r{k}")).collect::<Vec<_>>().join(", "));
        let expected = format!("[{}]", exps.iter().map(|b| format!("0x{}", crate::canon::hex(b))).collect::<Vec<_>>().join(", "));
        let defs = format!("{}, {}, {}", super::c04::SPIN, SPB, SPX);
        let mode = rng.below(4);
        h.u64(mode);
        let mut ops = super::c03::noise_ops(rng);
        let family;
        match mode {
            0 => {
                family = "c06-run-path";
                let body: Vec<String> = groups.iter().flatten().cloned().collect();
                ops.push(ClientOp::Run { src: format!("{defs}, #{{ {}, {fin} }}", body.join(", ")), shake: rng.chance(1, 2), json: rng.chance(1, 3), wait: true });
            }
            1 | 2 => {
                family = "c06-repl-lines";
                ops.push(ClientOp::Line { session: 0, src: defs });
                for grp in &groups {
                    // a group may itself be split into single statements
                    if rng.chance(1, 2) {
                        for s in grp {
                            ops.push(ClientOp::Line { session: 0, src: s.clone() });
                        }
                    } else {
                        ops.push(ClientOp::Line { session: 0, src: grp.join(", ") });
                    }
                }
                ops.push(ClientOp::Line { session: 0, src: fin.clone() });
                // a later line that drops everything but one binding, then reads it back
                if rng.chance(1, 2) {
                    ops.push(ClientOp::Line { session: 0, src: "r0".to_string() });
                }
            }
            _ => {
                family = "c06-repl-one-line";
                let body: Vec<String> = groups.iter().flatten().cloned().collect();
                ops.push(ClientOp::Line { session: 0, src: format!("{defs}, {}, {fin}", body.join(", ")) });
            }
        }
        let last_is_r0 = matches!(ops.last(), Some(ClientOp::Line { src, .. }) if src == "r0");
        Scenario {
            family: family.to_string(),
            ops,
            modules: vec![],
            files: Default::default(),
            timing: false,
            io: false,
            fixed_faults: Default::default(),
            expect: serde_json::json!({ "value": expected, "r0": format!("0x{}", crate::canon::hex(&exps[0])), "last_is_r0": last_is_r0 }),
            shape: h.0,
            est_len: 100,
            min_quantum: 0,
        }
    }
    fn monitor(&self, _scn: &Scenario) -> Box<dyn Monitor + Send> {
        Box::new(HeapMonitor::new("C06"))
    }
    fn judge(&self, scn: &Scenario, _refdata: Option<&RefData>, r: &RunResult) -> Vec<Violation> {
        let mut v = Vec::new();
        let expected = scn.expect["value"].as_str().unwrap_or("");
        let last_is_r0 = scn.expect["last_is_r0"].as_bool().unwrap_or(false);
        let vals: Vec<&Out> = r.outs.iter().filter(|o| matches!(o, Out::Value(_) | Out::RuntimeError(_))).collect();
        let (fin, r0) = if last_is_r0 && vals.len() >= 2 { (vals[vals.len() - 2], Some(vals[vals.len() - 1])) } else if let Some(l) = vals.last() { (*l, None) } else {
            v.push(Violation::new("C06", "bytes", "no-result", format!("no result: {:?}", r.outs), r.steps));
            return v;
        };
        match fin {
            Out::Value(s) if s == expected => {}
            other => v.push(Violation::new("C06", "bytes", "wrong-content", format!("program yielded {:?}, the model expects {expected}", other), r.steps)),
        }
        if let Some(x) = r0 {
            let e0 = scn.expect["r0"].as_str().unwrap_or("");
            match x {
                Out::Value(s) if s == e0 => {}
                other => v.push(Violation::new("C06", "bytes", "wrong-content-after-compaction", format!("r0 read back as {:?}, the model expects {e0}", other), r.steps)),
            }
        }
        v
    }
}

/// Per-turn heap accounting monitor (also used by C11).
pub struct HeapMonitor {
    prop: &'static str,
    shadow: HashMap<(usize, usize), Vec<u8>>,
    probes: BTreeMap<String, u64>,
    ever_freed: HashSet<(usize, usize)>,
}

impl HeapMonitor {
    pub fn new(prop: &'static str) -> HeapMonitor {
        HeapMonitor { prop, shadow: HashMap::new(), probes: BTreeMap::new(), ever_freed: HashSet::new() }
    }
    fn probe(&mut self, k: &str) {
        *self.probes.entry(k.to_string()).or_insert(0) += 1;
    }
}

fn heap_of(v: &Value, out: &mut Vec<usize>, via_closure: &mut bool, via_tuple: &mut bool, depth: u8) {
    match v {
        Value::Binary(Binary::Heap(i)) => {
            out.push(*i);
        }
        Value::Tuple(_, fs) => {
            let before = out.len();
            for f in fs.iter() {
                heap_of(f, out, via_closure, via_tuple, depth + 1);
            }
            if out.len() > before {
                *via_tuple = true;
            }
        }
        Value::Function(_, cs) => {
            let before = out.len();
            for c in cs.iter() {
                heap_of(c, out, via_closure, via_tuple, depth + 1);
            }
            if out.len() > before {
                *via_closure = true;
            }
        }
        _ => {}
    }
}

fn has_heap(v: &Value) -> bool {
    let mut o = Vec::new();
    let (mut a, mut b) = (false, false);
    heap_of(v, &mut o, &mut a, &mut b, 0);
    !o.is_empty()
}

impl Monitor for HeapMonitor {
    fn after(&mut self, world: &World, _client: &Client, _d: &Decision, out: &StepOutcome) -> Option<Violation> {
        if world.dead {
            return None;
        }
        let prop = self.prop;
        // in-flight probes (cheap: only messages sent this turn)
        {
            let sh = world.sh.lock().unwrap();
            for id in &sh.cur_sent {
                match sh.cmd(*id) {
                    Some(Command::SpawnProcess { heap_data, .. }) if !heap_data.is_empty() => self.probe("in_flight_spawn_with_heap"),
                    Some(Command::DeliverMessage { heap, .. }) if !heap.is_empty() => self.probe("in_flight_message_with_heap"),
                    Some(Command::CompactLocals { process_id, .. }) => {
                        if let Some(w) = world.worker_of(*process_id)
                            && let Some(p) = world.workers[w].verif_executor().get_process(*process_id)
                            && p.locals.iter().any(has_heap)
                        {
                            self.probe("repl_compaction_with_heap_locals");
                        }
                    }
                    _ => {}
                }
                if let Some(Event::ResultResponse { .. }) = sh.evt(*id) {}
            }
        }
        if out.actor == 0 || out.actor == usize::MAX {
            return None;
        }
        let wi = out.actor - 1;
        let ex = world.workers[wi].verif_executor();
        // freed-slot log (all workers on this thread)
        for (w, idx) in quiver_core::verif::take_freed_log() {
            self.shadow.remove(&(w as usize, idx));
            self.ever_freed.insert((w as usize, idx));
        }
        // (1) count > 0 <=> reachable
        if let Err(e) = ex.check_refcounts() {
            let cause = if e.contains("reachable=false") { "counted-but-unreachable" } else { "reachable-but-uncounted" };
            return Some(Violation::new(prop, "accounting", cause, format!("worker {wi} after its turn: {e}"), world.steps));
        }
        let hv = ex.verif_heap_view();
        let reachable = ex.reachable_heap_indices();
        // (2) no live value refers to a reclaimed slot; free pool well-formed
        for r in &reachable {
            if hv.freed.get(*r).copied().unwrap_or(false) {
                return Some(Violation::new(prop, "premature-free", "live-value-refers-to-reclaimed-slot", format!("worker {wi}: heap slot {r} is reachable but marked reclaimed"), world.steps));
            }
        }
        let mut seen_free = BTreeSet::new();
        for f in &hv.free {
            if !hv.freed[*f] || hv.refcounts[*f] != 0 || !seen_free.insert(*f) {
                return Some(Violation::new(prop, "free-pool", "malformed", format!("worker {wi}: free-pool entry {f}: freed={} count={} duplicate={}", hv.freed[*f], hv.refcounts[*f], seen_free.contains(f)), world.steps));
            }
        }
        // (5) unreachable storage is reclaimed or queued for reclamation
        let pending: HashSet<usize> = hv.pending_free.iter().copied().collect();
        for idx in 0..hv.slots {
            if !reachable.contains(&idx) && !hv.freed[idx] && !pending.contains(&idx) {
                return Some(Violation::new(prop, "leak", "unreachable-slot-never-queued", format!("worker {wi}: heap slot {idx} is unreachable, not reclaimed and not queued for reclamation (count {})", hv.refcounts[idx]), world.steps));
            }
        }
        // (6) a terminated process (failed, or finished and not persistent) can be observed only through
        // its result: binaries in its stack, locals, unread mail, unfinished select or awaited results are
        // reachable by no program and must not stay counted (the executor's own oracle walks dead
        // processes too, so rule (1) cannot see this)
        for pid in ex.verif_process_ids() {
            let Some(p) = ex.get_process(pid) else { continue };
            let terminated = match &p.result {
                Some(Err(_)) => true,
                Some(Ok(_)) => !p.persistent,
                None => false,
            };
            if !terminated {
                // (7) a live process reads an awaited result only while the select that awaited it is
                // being evaluated; once that select is over (no select state) the copy kept in the
                // awaiting table can be read by no program - the next select listing the process asks
                // again - and must not stay counted: a long-lived awaiter would grow without bound
                if p.select_state.is_none() && p.awaiting.values().flatten().any(has_heap) {
                    return Some(Violation::new(prop, "leak", "awaited-result-pinned-after-select", format!("worker {wi}: process {pid} is not in a select, yet its table of awaited results still holds heap binaries (of {:?}) that no program can read", p.awaiting.iter().filter(|(_, v)| v.as_ref().is_some_and(has_heap)).map(|(k, _)| *k).collect::<Vec<_>>()), world.steps));
                }
                self.probe("live_process_outside_select_holds_no_awaited_result");
                continue;
            }
            let pinned_by = if p.stack.iter().any(has_heap) {
                Some("operand stack")
            } else if p.locals.iter().any(has_heap) {
                Some("locals")
            } else if p.mailbox.iter().any(has_heap) {
                Some("unread mail")
            } else if p.select_state.as_ref().is_some_and(|s| s.sources.iter().any(has_heap) || s.receiving.as_ref().is_some_and(|(_, m)| has_heap(m))) {
                Some("unfinished select")
            } else if p.awaiting.values().flatten().any(has_heap) {
                Some("awaited results")
            } else {
                None
            };
            if let Some(what) = pinned_by {
                return Some(Violation::new(prop, "leak", "terminated-process-pins-storage", format!("worker {wi}: process {pid} has terminated ({}) but its {what} still hold heap binaries that nothing can reach", if matches!(p.result, Some(Err(_))) { "failed" } else { "finished" }), world.steps));
            }
            self.probe("terminated_process_holds_no_storage");
        }
        // (3) shadow copy of live slots
        for r in &reachable {
            let Some(data) = ex.get_heap_binary(*r) else { continue };
            let bytes = data.to_vec();
            match self.shadow.get(&(wi, *r)) {
                Some(old) if *old != bytes => {
                    return Some(Violation::new(prop, "aliasing", "content-changed-while-live", format!("worker {wi}: live heap slot {r} changed from 0x{} to 0x{} without being reclaimed", crate::canon::hex(old), crate::canon::hex(&bytes)), world.steps));
                }
                Some(_) => {}
                None => {
                    if self.ever_freed.contains(&(wi, *r)) {
                        self.probe("slot_reused_after_reclaim");
                    }
                    self.shadow.insert((wi, *r), bytes);
                }
            }
        }
        // coverage matrix: slots reachable through exactly one root kind
        let mut roots: HashMap<usize, BTreeSet<&'static str>> = HashMap::new();
        let (mut via_closure, mut via_tuple) = (false, false);
        for pid in ex.verif_process_ids() {
            let Some(p) = ex.get_process(pid) else { continue };
            let mut add = |vals: &mut dyn Iterator<Item = &Value>, kind: &'static str, roots: &mut HashMap<usize, BTreeSet<&'static str>>, vc: &mut bool, vt: &mut bool| {
                for v in vals {
                    let mut o = Vec::new();
                    heap_of(v, &mut o, vc, vt, 0);
                    for i in o {
                        roots.entry(i).or_default().insert(kind);
                    }
                }
            };
            add(&mut p.stack.iter(), "stack", &mut roots, &mut via_closure, &mut via_tuple);
            add(&mut p.locals.iter(), "locals", &mut roots, &mut via_closure, &mut via_tuple);
            add(&mut p.mailbox.iter(), "mailbox", &mut roots, &mut via_closure, &mut via_tuple);
            if let Some(Ok(v)) = &p.result {
                add(&mut std::iter::once(v), "result", &mut roots, &mut via_closure, &mut via_tuple);
            }
            if let Some(s) = &p.select_state {
                add(&mut s.sources.iter(), "select_sources", &mut roots, &mut via_closure, &mut via_tuple);
                if let Some((_, m)) = &s.receiving {
                    add(&mut std::iter::once(m), "select_receiving", &mut roots, &mut via_closure, &mut via_tuple);
                }
            }
            add(&mut p.awaiting.values().flatten(), "awaiting", &mut roots, &mut via_closure, &mut via_tuple);
        }
        if via_closure {
            self.probe("via_closure_capture");
        }
        if via_tuple {
            self.probe("via_tuple_field");
        }
        if !hv.constant_slots.is_empty() {
            self.probe("via_constant_cache");
        }
        for (_, kinds) in roots {
            if kinds.contains("select_sources") {
                self.probe("via_select_sources");
            }
            if kinds.contains("select_receiving") {
                self.probe("via_select_receiving");
            }
            if kinds.len() == 1 {
                let k = *kinds.iter().next().unwrap();
                self.probe(match k {
                    "stack" => "only_via_stack",
                    "locals" => "only_via_locals",
                    "mailbox" => "only_via_mailbox",
                    "result" => "only_via_result",
                    "select_sources" => "only_via_select_sources",
                    "select_receiving" => "only_via_select_receiving",
                    _ => "only_via_awaiting",
                });
            }
        }
        None
    }

    fn at_end(&mut self, _world: &World, _client: &Client, _end: &EndState) -> Vec<Violation> {
        Vec::new()
    }

    fn probes(&self) -> BTreeMap<String, u64> {
        self.probes.clone()
    }
}
