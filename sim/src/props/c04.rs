//! C04 — messages exactly-once, per-sender FIFO, no lost wake-ups.

use super::{Property, RefData, Scenario, Tier, default_cfg};
use crate::client::{Client, ClientOp, Out};
use crate::rng::Rng;
use crate::run::{EndState, Monitor, RunResult, Violation};
use crate::transport::Shared;
use crate::world::{Decision, RunCfg, StepOutcome, World};
use num_bigint::BigInt;
use num_traits::{ToPrimitive, Zero};
use quiver_core::value::Value;
use quiver_environment::{Command, Event};
use std::collections::{BTreeMap, BTreeSet};

pub struct C04;

pub const SPIN: &str = "spin = #['int, 'int] { | =[0, acc] => acc | =[n, acc] => [[n, 1] __integer_subtract__, [acc, 2] __integer_add__] ^ }";
const COL: &str = "col = #['int, 'int] { | =[0, acc] => acc | =[n, acc] => [[n, 1] __integer_subtract__, [[acc, 100000] __integer_multiply__, !'int] __integer_add__] ^ }";
const COLT: &str = "colt = #['int, 'int] { | =[0, acc] => acc | =[n, acc] => { ! [#'int, 7] { | =[] => [n, acc] | =m => [[n, 1] __integer_subtract__, [[acc, 100000] __integer_multiply__, m] __integer_add__] } ^ } }";
const SND: &str = "snd = #[(@'int), 'int, 'int, 'int] { | =[to, base, 0, s] => 0 | =[to, base, k, s] => { base to, w = [s, 0] spin, [&to, [base, 1] __integer_add__, [k, 1] __integer_subtract__, s] ^ } }";
const FWD: &str = "fwd = #[(@'int), 'int] { | =[to, 0] => 0 | =[to, k] => { !'int to, [&to, [k, 1] __integer_subtract__] ^ } }";
const SND2: &str = "snd2 = #[(@'int), (@'int), 'int, 'int] { | =[a, b, base, 0] => 0 | =[a, b, base, k] => { base a, [base, 50] __integer_add__ b, [&a, &b, [base, 1] __integer_add__, [k, 1] __integer_subtract__] ^ } }";
const SRV: &str = "srv = #'int { | =0 => 0 | =k => { !#[(@'int), 'int] =[from, m], [m, 100] __integer_add__ from, [k, 1] __integer_subtract__ ^ } }";
const COL2: &str = "col2 = #['int, 'int, 'int] { | =[0, acc, s] => acc | =[n, acc, s] => [[n, 1] __integer_subtract__, [[acc, 100000] __integer_multiply__, ! [#'int { =m, [m, 5000] __integer_compare__ =1 }, #'int { =m, w = [s, 0] spin, [m, 3] __integer_modulo__ { | =0 => [] | Ok } }]] __integer_add__, s] ^ }";
const FA: &str = "fa = #[(@-> 'int), 'int] { =[p, s], w = [s, 0] spin, r = !p, [r, 1] __integer_add__ }";
const VIC: &str = "vic = #['int, 'int] { =[n, s], g = !'int, w = [s, 0] spin, [n, g] __integer_divide__ }";
const CLI: &str = "cli = #[(@[(@'int), 'int]), 'int, 'int, 'int] { | =[s, base, 0, acc] => acc | =[s, base, k, acc] => { [&., base] s, [&s, [base, 1] __integer_add__, [k, 1] __integer_subtract__, [[acc, 100000] __integer_multiply__, !'int] __integer_add__] ^ } }";

fn colf(spin: u32) -> String {
    format!("colf = #['int, 'int] {{ | =[0, acc] => acc | =[n, acc] => [[n, 1] __integer_subtract__, [[acc, 100000] __integer_multiply__, ! [#'int {{ =m, w = [{spin}, 0] spin, Ok }}]] __integer_add__] ^ }}")
}

/// Decode a collector result (base-100000 digits) into message ints in receive order.
pub fn decode(s: &str) -> Option<Vec<u64>> {
    let mut n: BigInt = s.parse().ok()?;
    let base = BigInt::from(100000);
    let mut out = Vec::new();
    while !n.is_zero() {
        let d = (&n % &base).to_u64()?;
        out.push(d);
        n /= &base;
    }
    out.reverse();
    Some(out)
}

/// Split a canonical tuple "[a, b, c]" of integers.
pub fn split_tuple(s: &str) -> Vec<String> {
    let t = s.trim();
    if let Some(inner) = t.strip_prefix('[').and_then(|x| x.strip_suffix(']')) {
        if inner.is_empty() {
            return vec![];
        }
        inner.split(", ").map(|x| x.to_string()).collect()
    } else {
        vec![t.to_string()]
    }
}

/// A REPL session whose own process is the receiver: a child sends it 2-4 numbered messages; the
/// session takes one per line (with pauses in between), so some arrive while a line is still running
/// and are left unread by it, others arrive while the session sleeps between lines.
fn repl_mail(rng: &mut Rng) -> Scenario {
    let n = 2 + rng.usize(3);
    let base = rng.range(10, 500);
    let sp = *rng.pick(&[0u32, 0, 6, 40]);
    let mut h = crate::rng::Fnv::default();
    h.u64(0x3a11);
    h.u64(n as u64);
    h.u64(sp as u64);
    let sends: Vec<String> = (0..n).map(|i| if sp > 0 && i > 0 { format!("w{i} = [{sp}, 0] spin, {} to", base + i as u64) } else { format!("{} to", base + i as u64) }).collect();
    let mut ops = vec![ClientOp::Line { session: 0, src: format!("{SPIN}, sndq = #(@'int) {{ =to, {}, 0 }}, c = &. @sndq, !#'int", sends.join(", ")) }];
    for i in 1..n {
        if rng.chance(1, 2) {
            ops.push(ClientOp::Line { session: 0, src: format!("z{i} = [! [{}]], Ok", *rng.pick(&[0u32, 3, 30])) });
        }
        ops.push(ClientOp::Line { session: 0, src: "!#'int".to_string() });
    }
    ops.push(ClientOp::Line { session: 0, src: "!c".to_string() });
    let want: Vec<String> = (0..n).map(|i| (base + i as u64).to_string()).collect();
    Scenario {
        family: "c04-repl-mail".into(),
        ops,
        modules: vec![],
        files: Default::default(),
        timing: true,
        io: false,
        fixed_faults: Default::default(),
        expect: serde_json::json!({ "repl_mail": want }),
        shape: h.0,
        est_len: 120,
        min_quantum: 0,
    }
}

/// One message whose value is nested N tuples deep (a Cons list of N ints): nothing about it is
/// unusual for the native host; quiver-web's transport encodes every message as JSON text, three
/// levels of JSON per tuple level, and decodes with serde_json's default nesting limit of 128.
fn deep_value(rng: &mut Rng) -> Scenario {
    let n = *rng.pick(&[8u64, 30, 45, 60, 120]);
    let mut h = crate::rng::Fnv::default();
    h.u64(0xdee9);
    h.u64(n);
    let src = format!(
        "'list = Nil | Cons['int, ^], mk = #['int, 'list] {{ | =[0, acc] => acc | =[n, acc] => [[n, 1] __integer_subtract__, Cons[n, acc]] ^ }}, sum = #['list, 'int] {{ | =[Nil, acc] => acc | =[Cons[h, t], acc] => [t, [acc, h] __integer_add__] ^ }}, rc = @#{{ l = !#'list, [l, 0] sum }}, l = [{n}, Nil] mk, l rc, !rc"
    );
    Scenario {
        family: "c04-deep-value".into(),
        ops: vec![ClientOp::Line { session: 0, src }],
        modules: vec![],
        files: Default::default(),
        timing: false,
        io: false,
        fixed_faults: Default::default(),
        expect: serde_json::json!({ "deep": (n * (n + 1) / 2).to_string() }),
        shape: h.0,
        est_len: 120,
        min_quantum: 0,
    }
}

/// Two selects in a row, each over a process that cannot finish in time and a message that is
/// already in the mailbox; the first select's process is released right after it, so that its
/// completion (owed to a select that is over) travels while the second select's own query is being
/// answered "not finished yet" by the same worker. The second select has a ready source all along.
fn sel_twice(rng: &mut Rng) -> Scenario {
    let (a, b) = (rng.range(10, 400), rng.range(500, 900));
    let fill = rng.usize(3);
    let mut h = crate::rng::Fnv::default();
    h.u64(0x5e17);
    h.u64(fill as u64);
    let fillers: String = (0..fill).map(|i| format!("d{i} = @#{{ 0 }}, ")).collect();
    let src = format!("blk = #{{ !'int }}, t1 = @blk, {fillers}t2 = @blk, me = &., {a} me, {b} me, x = ! [t1, #'int], 1 t1, y = ! [t2, #'int], [x, y]");
    Scenario {
        family: "c04-select-after-stale-registration".into(),
        ops: vec![ClientOp::Line { session: 0, src }],
        modules: vec![],
        files: Default::default(),
        timing: false,
        io: false,
        fixed_faults: Default::default(),
        expect: serde_json::json!({ "sel_twice": format!("[{a}, {b}]") }),
        shape: h.0,
        est_len: 120,
        min_quantum: 0,
    }
}

impl Property for C04 {
    fn id(&self) -> &'static str {
        "C04"
    }
    fn cases(&self, tier: Tier) -> usize {
        match tier {
            Tier::Quick => 800,
            Tier::Thorough => 4000,
        }
    }
    fn variants(&self, tier: Tier) -> usize {
        match tier {
            Tier::Quick => 40,
            Tier::Thorough => 300,
        }
    }
    fn rule_text(&self) -> &'static str {
        "cases: generated message-passing scenarios (fan-in with 1-5 senders, fan-out, forwarder pipelines, request/reply, filter and timeout-polling collectors, sends racing the receiver's spawn, sends to finished processes, awaits before/after completion); every message value is unique and encodes (sender, sequence); receivers return their receive log. Each scenario runs under the reference configuration and V sampled schedule/configuration variants with conservation, in-transit FIFO, spawn-notification and lost-completion monitors after every decision. Non-trivial: >=2 workers, >=1 message handled while an older one to another consumer was still queued, conclusive. Distinct = distinct (scenario shape, interleaving hash) pairs."
    }
    fn required_probes(&self) -> Vec<&'static str> {
        vec!["msg_arrived_while_receiver_selecting", "msg_arrived_before_receiver_spawned_or_running", "await_after_target_finished", "await_before_target_finished", "msg_to_finished_process", "quiescence_checked_event_driven"]
    }
    fn draw_cfg(&self, rng: &mut Rng, scn: &Scenario) -> RunCfg {
        let mut c = default_cfg(rng, scn);
        c.event_driven = rng.chance(1, 2);
        c
    }
    fn generate(&self, rng: &mut Rng, _tier: Tier) -> Scenario {
        if rng.chance(1, 14) {
            return repl_mail(rng);
        }
        if rng.chance(1, 25) {
            return deep_value(rng);
        }
        if rng.chance(1, 20) {
            return sel_twice(rng);
        }
        let mut defs: Vec<String> = vec![SPIN.into(), COL.into(), COLT.into(), SND.into(), FWD.into(), SND2.into(), SRV.into(), CLI.into(), COL2.into(), FA.into(), VIC.into()];
        let fspin = *rng.pick(&[3u32, 12, 30]);
        defs.push(colf(fspin));
        let mut body: Vec<String> = Vec::new();
        // expected per collector: sender -> list of messages in order
        let mut expect: Vec<BTreeMap<String, Vec<u64>>> = Vec::new();
        let mut h = crate::rng::Fnv::default();
        let family;
        let mut timing = false;
        let kind = rng.below(13);
        h.u64(kind);
        let mut expect_error: Option<String> = None;
        let mut results: Vec<String> = Vec::new();
        match kind {
            0..=4 => {
                family = "fan-in";
                let nsend = 1 + rng.usize(5);
                let ckind = rng.below(4);
                let cname = match ckind {
                    0 | 1 => "col",
                    2 => "colf",
                    _ => {
                        timing = true;
                        "colt"
                    }
                };
                h.u64(nsend as u64);
                h.u64(ckind);
                let mut counts = Vec::new();
                let mut total = 0;
                for _ in 0..nsend {
                    let k = 1 + rng.usize(6);
                    counts.push(k);
                    total += k;
                }
                let main_sends = rng.usize(3);
                total += main_sends;
                let early_main = rng.chance(1, 2);
                body.push(format!("c = [{total}, 0] @{cname}"));
                let mut exp = BTreeMap::new();
                let mut main_msgs = Vec::new();
                for j in 0..main_sends {
                    main_msgs.push(9001 + j as u64);
                }
                if early_main {
                    // sends racing the receiver's spawn
                    for m in &main_msgs {
                        body.push(format!("{m} c"));
                    }
                }
                for (i, k) in counts.iter().enumerate() {
                    let base = (i as u64 + 1) * 100 + 1;
                    let s = *rng.pick(&[0u32, 0, 2, 9, 25]);
                    h.u64(*k as u64);
                    h.u64(s as u64);
                    body.push(format!("s{i} = [&c, {base}, {k}, {s}] @snd"));
                    exp.insert(format!("s{i}"), (0..*k as u64).map(|q| base + q).collect::<Vec<_>>());
                }
                if !early_main {
                    for m in &main_msgs {
                        body.push(format!("{m} c"));
                    }
                }
                if !main_msgs.is_empty() {
                    exp.insert("main".into(), main_msgs);
                }
                // awaits of the senders: before / after / never
                let mut order: Vec<usize> = (0..nsend).collect();
                rng.shuffle(&mut order);
                let await_senders = rng.below(3);
                h.u64(await_senders);
                if await_senders == 0 {
                    for i in &order {
                        body.push(format!("x{i} = !s{i}"));
                    }
                }
                body.push("r = !c".to_string());
                if await_senders == 1 {
                    for i in &order {
                        body.push(format!("x{i} = !s{i}"));
                    }
                }
                if rng.chance(1, 2) {
                    // message to a finished process
                    body.push("9999 c".to_string());
                    h.u64(77);
                }
                results.push("r".into());
                expect.push(exp);
            }
            5 => {
                family = "fan-out";
                let k = 1 + rng.usize(5);
                h.u64(k as u64);
                body.push(format!("a = [{k}, 0] @col"));
                body.push(format!("b = [{k}, 0] @{}", if rng.chance(1, 2) { "col" } else { "colf" }));
                body.push(format!("s = [&a, &b, 101, {k}] @snd2"));
                if rng.chance(1, 2) {
                    body.push("x = !s".into());
                }
                body.push("ra = !a".into());
                body.push("rb = !b".into());
                let mut ea = BTreeMap::new();
                ea.insert("s".to_string(), (0..k as u64).map(|q| 101 + q).collect::<Vec<_>>());
                let mut eb = BTreeMap::new();
                eb.insert("s".to_string(), (0..k as u64).map(|q| 151 + q).collect::<Vec<_>>());
                results.push("ra".into());
                results.push("rb".into());
                expect.push(ea);
                expect.push(eb);
            }
            6..=7 => {
                family = "pipeline";
                let hops = 1 + rng.usize(3);
                let k = 1 + rng.usize(5);
                h.u64(hops as u64);
                h.u64(k as u64);
                body.push(format!("c = [{k}, 0] @{}", if rng.chance(1, 3) { "colf" } else { "col" }));
                let mut prev = "c".to_string();
                for i in 0..hops {
                    body.push(format!("f{i} = [&{prev}, {k}] @fwd"));
                    prev = format!("f{i}");
                }
                let via_sender = rng.chance(1, 2);
                if via_sender {
                    body.push(format!("s = [&{prev}, 101, {k}, {}] @snd", *rng.pick(&[0u32, 5])));
                } else {
                    for q in 0..k {
                        body.push(format!("{} {prev}", 101 + q));
                    }
                }
                body.push("r = !c".into());
                let mut e = BTreeMap::new();
                e.insert("s".to_string(), (0..k as u64).map(|q| 101 + q).collect::<Vec<_>>());
                results.push("r".into());
                expect.push(e);
            }
            10..=11 => {
                // two filter sources; the lower-priority filter is long and rejects some messages
                family = "two-filter-fan-in";
                let na = 1 + rng.usize(4);
                let nb = 2 + rng.usize(6);
                let fs = *rng.pick(&[5u32, 20, 60, 150]);
                h.u64(na as u64 * 16 + nb as u64);
                h.u64(fs as u64);
                let big: Vec<u64> = (0..na as u64).map(|q| 6001 + q).collect();
                let small_all: Vec<u64> = (0..nb as u64).map(|q| 101 + q).collect();
                let small: Vec<u64> = small_all.iter().copied().filter(|m| m % 3 != 0).collect();
                let total = big.len() + small.len();
                body.push(format!("c = [{total}, 0, {fs}] @col2"));
                let (sa, sb) = (*rng.pick(&[0u32, 3, 15]), *rng.pick(&[0u32, 3, 15]));
                if rng.chance(1, 2) {
                    body.push(format!("sb = [&c, 101, {nb}, {sb}] @snd"));
                    body.push(format!("sa = [&c, 6001, {na}, {sa}] @snd"));
                } else {
                    body.push(format!("sa = [&c, 6001, {na}, {sa}] @snd"));
                    body.push(format!("sb = [&c, 101, {nb}, {sb}] @snd"));
                }
                body.push("r = !c".into());
                let mut e = BTreeMap::new();
                e.insert("big".to_string(), big);
                e.insert("small".to_string(), small);
                results.push("r".into());
                expect.push(e);
            }
            12 => {
                // a failure travelling down a chain of awaiters: every link must be woken
                family = "failure-chain";
                let len = 1 + rng.usize(3);
                h.u64(len as u64);
                body.push(format!("t = [10, {}] @vic", *rng.pick(&[0u32, 10, 60])));
                let mut prev = "t".to_string();
                for i in 0..len {
                    let s = *rng.pick(&[0u32, 0, 8, 40, 120]);
                    h.u64(s as u64);
                    body.push(format!("a{i} = [&{prev}, {s}] @fa"));
                    prev = format!("a{i}");
                }
                if rng.chance(1, 2) {
                    body.push(format!("w = [{}, 0] spin", *rng.pick(&[5u32, 50, 150])));
                }
                body.push("0 t".into());
                body.push(format!("r = !{prev}"));
                results.push("r".into());
                expect_error = Some("Division by zero".to_string());
            }
            _ => {
                family = "request-reply";
                let ncli = 1 + rng.usize(3);
                let mut total = 0;
                let mut ks = Vec::new();
                for _ in 0..ncli {
                    let k = 1 + rng.usize(4);
                    ks.push(k);
                    total += k;
                }
                h.u64(ncli as u64);
                body.push(format!("sv = {total} @srv"));
                for (i, k) in ks.iter().enumerate() {
                    let base = (i as u64 + 1) * 100 + 1;
                    h.u64(*k as u64);
                    body.push(format!("c{i} = [&sv, {base}, {k}, 0] @cli"));
                    let mut e = BTreeMap::new();
                    e.insert("srv".to_string(), (0..*k as u64).map(|q| base + q + 100).collect::<Vec<_>>());
                    expect.push(e);
                }
                let mut order: Vec<usize> = (0..ncli).collect();
                rng.shuffle(&mut order);
                for i in &order {
                    body.push(format!("r{i} = !c{i}"));
                }
                if rng.chance(1, 2) {
                    body.push("z = !sv".into());
                }
                for i in 0..ncli {
                    results.push(format!("r{i}"));
                }
            }
        }
        body.push(format!("[{}]", results.join(", ")));
        let mut ops = super::c03::noise_ops(rng);
        if rng.chance(1, 4) {
            let src = format!("{}, #{{ {} }}", defs.join(", "), body.join(", "));
            ops.push(ClientOp::Run { src, shake: rng.chance(1, 2), json: rng.chance(1, 3), wait: true });
        } else {
            ops.push(ClientOp::Line { session: 0, src: format!("{}, {}", defs.join(", "), body.join(", ")) });
        }
        Scenario {
            family: format!("c04-{family}"),
            ops,
            modules: vec![],
            files: Default::default(),
            timing,
            io: false,
            fixed_faults: Default::default(),
            expect: match &expect_error {
                Some(e) => serde_json::json!({ "error": e }),
                None => serde_json::to_value(&expect).unwrap(),
            },
            shape: h.0,
            est_len: 100,
            min_quantum: 0,
        }
    }
    fn monitor(&self, _scn: &Scenario) -> Box<dyn Monitor + Send> {
        Box::new(MsgMonitor::new("C04"))
    }
    fn judge(&self, scn: &Scenario, _refdata: Option<&RefData>, r: &RunResult) -> Vec<Violation> {
        let mut v = Vec::new();
        if let Some(err) = scn.expect.get("error").and_then(|e| e.as_str()) {
            // failure chain: the client (last link's awaiter) must be woken with the victim's error
            match r.outs.last() {
                Some(Out::RuntimeError(e)) if e.contains(err) => {}
                other => v.push(Violation::new("C04", "lost-wakeup", "failure-not-propagated-to-client", format!("client got {:?}, expected the victim's error ({err})", other), r.steps)),
            }
            for (path, res) in &r.procs {
                if path != "R0" && path.starts_with("R0/") && !res.contains(err) && res != "0" {
                    v.push(Violation::new("C04", "lost-wakeup", "chain-link-not-failed", format!("process {path} ended with {res}; every link of the await chain must fail with the victim's error"), r.steps));
                    break;
                }
            }
            return v;
        }
        if let Some(want) = scn.expect.get("sel_twice").and_then(|x| x.as_str()) {
            match r.outs.last() {
                Some(Out::Value(s)) if s == want => {}
                other => v.push(Violation::new("C04", "lost-wakeup", "select-with-mail-after-stale-registration", format!("the session yielded {:?}, expected {want}: both selects had their message in the mailbox", other), r.steps)),
            }
            return v;
        }
        if let Some(want) = scn.expect.get("deep").and_then(|x| x.as_str()) {
            match r.outs.last() {
                Some(Out::Value(s)) if s == want => {}
                other => v.push(Violation::new("C04", "exactly-once", "deeply-nested-message", format!("the receiver of a deeply nested message yielded {:?}, expected {want}", other), r.steps)),
            }
            return v;
        }
        if let Some(lines) = scn.expect.get("repl_mail").and_then(|x| x.as_array()) {
            // a session that receives, line by line, what a child sent it: every message exactly once, in
            // send order, also the ones that arrived while an earlier line was still running
            let got: Vec<String> = r
                .ops
                .iter()
                .zip(r.outs.iter())
                .filter(|(op, _)| matches!(op, ClientOp::Line { src, .. } if src.contains("!#'int")))
                .map(|(_, out)| match out {
                    Out::Value(s) => s.clone(),
                    other => format!("{:?}", other),
                })
                .collect();
            let want: Vec<String> = lines.iter().map(|x| x.as_str().unwrap_or("").to_string()).collect();
            if got != want {
                v.push(Violation::new("C04", "exactly-once", "mail-across-repl-lines", format!("the session's receiving lines yielded {:?}; the child sent {:?} in that order", got, want), r.steps));
            }
            return v;
        }
        let expect: Vec<BTreeMap<String, Vec<u64>>> = serde_json::from_value(scn.expect.clone()).unwrap_or_default();
        let out = match r.outs.last() {
            Some(Out::Value(s)) => s.clone(),
            other => {
                v.push(Violation::new("C04", "process-failed", "client-result", format!("client got {:?}", other), r.steps));
                return v;
            }
        };
        let parts = split_tuple(&out);
        if parts.len() != expect.len() {
            v.push(Violation::new("C04", "log-mismatch", "shape", format!("result {out} has {} logs, expected {}", parts.len(), expect.len()), r.steps));
            return v;
        }
        for (i, (p, exp)) in parts.iter().zip(expect.iter()).enumerate() {
            let Some(log) = decode(p) else {
                v.push(Violation::new("C04", "log-mismatch", "undecodable", format!("receiver {i} log {p} undecodable"), r.steps));
                continue;
            };
            let all: BTreeSet<u64> = exp.values().flatten().copied().collect();
            let total: usize = exp.values().map(|x| x.len()).sum();
            // duplicates / foreign / lost
            let mut seen = BTreeSet::new();
            for m in &log {
                if !all.contains(m) {
                    v.push(Violation::new("C04", "exactly-once", "foreign-message", format!("receiver {i} received {m} which nobody sent to it; log {:?}", log), r.steps));
                    return v;
                }
                if !seen.insert(*m) {
                    v.push(Violation::new("C04", "exactly-once", "duplicate", format!("receiver {i} received {m} twice; log {:?}", log), r.steps));
                    return v;
                }
            }
            if log.len() != total {
                v.push(Violation::new("C04", "exactly-once", "lost", format!("receiver {i} received {} messages, {} were sent; log {:?}", log.len(), total, log), r.steps));
                return v;
            }
            for (sender, msgs) in exp {
                let sub: Vec<u64> = log.iter().copied().filter(|m| msgs.contains(m)).collect();
                if &sub != msgs {
                    v.push(Violation::new("C04", "fifo", "per-sender-order", format!("receiver {i}: messages of sender {sender} arrived as {:?}, sent as {:?}", sub, msgs), r.steps));
                    return v;
                }
            }
        }
        for (path, res) in &r.procs {
            if res.starts_with("ERR(") {
                v.push(Violation::new("C04", "process-failed", &super::c03::classify_error(res), format!("process {path} failed: {res}"), r.steps));
                break;
            }
        }
        v
    }
}

/// Monitors over the transport queues and executor state, evaluated after every decision.
pub struct MsgMonitor {
    prop: &'static str,
    /// payload key -> stage reached (0 DeliverAction in flight, 1 DeliverMessage in flight, 2 mailbox, 3 consumed)
    stage: BTreeMap<String, u8>,
    probes: BTreeMap<String, u64>,
    seen_msgs: usize,
    check_conserve: bool,
    check_fifo: bool,
}

impl MsgMonitor {
    pub fn new(prop: &'static str) -> MsgMonitor {
        MsgMonitor { prop, stage: BTreeMap::new(), probes: BTreeMap::new(), seen_msgs: 0, check_conserve: true, check_fifo: true }
    }
    /// For scenarios whose integer payloads do not encode (sender, sequence).
    pub fn new_without_fifo(prop: &'static str) -> MsgMonitor {
        MsgMonitor { prop, stage: BTreeMap::new(), probes: BTreeMap::new(), seen_msgs: 0, check_conserve: true, check_fifo: false }
    }
    fn probe(&mut self, k: &str) {
        *self.probes.entry(k.to_string()).or_insert(0) += 1;
    }
}

pub fn payload_key(target: usize, v: &Value) -> Option<String> {
    match v {
        Value::Integer(i) => Some(format!("{target}<-{i}")),
        Value::Tuple(_, fs) => {
            let mut s = format!("{target}<-[");
            for f in fs.iter() {
                match f {
                    Value::Integer(i) => s.push_str(&format!("{i},")),
                    Value::Process(p, _) => s.push_str(&format!("@{p},")),
                    _ => return None,
                }
            }
            s.push(']');
            Some(s)
        }
        _ => None,
    }
}

/// sender id encoded in a C04 payload (messages are sender*100 + seq + 1, main uses 9001+)
fn sender_of(v: &Value) -> Option<(u64, u64)> {
    match v {
        Value::Integer(i) => {
            let n = i.to_u64()?;
            Some((n / 100, n % 100))
        }
        _ => None,
    }
}

impl Monitor for MsgMonitor {
    fn after(&mut self, world: &World, _client: &Client, _d: &Decision, out: &StepOutcome) -> Option<Violation> {
        if world.dead || out.actor == usize::MAX {
            return None;
        }
        let prop = self.prop;
        let sh = world.sh.lock().unwrap();
        // --- probes on newly received commands (this turn)
        let recv: Vec<usize> = sh.cur_recv.clone();
        for id in &recv {
            match sh.cmd(*id) {
                Some(Command::DeliverMessage { target, .. }) => {
                    if let Some(w) = world.worker_of(*target) {
                        let ex = world.workers[w].verif_executor();
                        match ex.get_process(*target) {
                            None => self.probe("msg_arrived_before_receiver_spawned_or_running"),
                            Some(p) => {
                                if p.result.is_some() {
                                    self.probe("msg_to_finished_process");
                                } else if p.select_state.is_some() {
                                    self.probe("msg_arrived_while_receiver_selecting");
                                    if p.select_state.as_ref().unwrap().receiving.is_some() {
                                        self.probe("msg_arrived_while_receiver_mid_filter");
                                    }
                                } else {
                                    self.probe("msg_arrived_before_receiver_spawned_or_running");
                                }
                            }
                        }
                    }
                }
                Some(Command::QueryAndAwait { targets, .. }) => {
                    for t in targets {
                        if let Some(w) = world.worker_of(*t) {
                            let done = world.workers[w].verif_executor().get_process(*t).is_some_and(|p| p.result.is_some());
                            if done {
                                self.probe("await_after_target_finished");
                            } else {
                                self.probe("await_before_target_finished");
                            }
                        }
                    }
                }
                _ => {}
            }
        }
        // --- collect in-flight protocol messages
        let mut in_evt: Vec<(usize, &Event<crate::transport::E>)> = Vec::new();
        let mut in_cmd: Vec<(usize, &Command<crate::transport::E>)> = Vec::new();
        for w in 0..sh.nworkers {
            for id in &sh.evt_q[w] {
                if let Some(e) = sh.evt(*id) {
                    in_evt.push((w, e));
                }
            }
            for id in &sh.cmd_q[w] {
                if let Some(c) = sh.cmd(*id) {
                    in_cmd.push((w, c));
                }
            }
        }
        // --- M-spawn
        let mut spawn_inflight: BTreeMap<usize, u32> = BTreeMap::new();
        for (_, e) in &in_evt {
            if let Event::SpawnAction { caller, .. } = e {
                *spawn_inflight.entry(*caller).or_insert(0) += 1;
            }
        }
        for (_, c) in &in_cmd {
            if let Command::NotifySpawn { process_id, .. } = c {
                *spawn_inflight.entry(*process_id).or_insert(0) += 1;
            }
        }
        let mut spawning_all: BTreeSet<usize> = BTreeSet::new();
        for w in &world.workers {
            for p in w.verif_executor().verif_parked().spawning {
                spawning_all.insert(p);
            }
        }
        for p in &spawning_all {
            let n = spawn_inflight.get(p).copied().unwrap_or(0);
            if n != 1 {
                return Some(Violation::new(prop, "spawn-notification", if n == 0 { "lost" } else { "duplicated" }, format!("process {p} is parked in `spawning` but {n} SpawnAction/NotifySpawn messages for it are in flight"), world.steps));
            }
        }
        for (p, n) in &spawn_inflight {
            if !spawning_all.contains(p) {
                return Some(Violation::new(prop, "spawn-notification", "caller-not-parked", format!("{n} SpawnAction/NotifySpawn in flight for process {p} which is not parked in `spawning`"), world.steps));
            }
        }
        // --- M-conserve + M-fifo
        if self.check_conserve {
            // where is each payload now?
            let mut place: BTreeMap<String, Vec<u8>> = BTreeMap::new();
            let mut transit: BTreeMap<(usize, u64), Vec<(u8, u64)>> = BTreeMap::new(); // (target, sender) -> [(stage, seq)] in order
            for w in &world.workers {
                let ex = w.verif_executor();
                for pid in ex.verif_process_ids() {
                    if let Some(p) = ex.get_process(pid) {
                        for m in &p.mailbox {
                            if let Some(k) = payload_key(pid, m) {
                                place.entry(k).or_default().push(2);
                            }
                            if let Some((s, q)) = sender_of(m) {
                                transit.entry((pid, s)).or_default().push((2, q));
                            }
                        }
                    }
                }
            }
            for (_, c) in &in_cmd {
                if let Command::DeliverMessage { target, message, .. } = c {
                    if let Some(k) = payload_key(*target, message) {
                        place.entry(k).or_default().push(1);
                    }
                    if let Some((s, q)) = sender_of(message) {
                        transit.entry((*target, s)).or_default().push((1, q));
                    }
                }
            }
            for (_, e) in &in_evt {
                if let Event::DeliverAction { target, message, .. } = e {
                    if let Some(k) = payload_key(*target, message) {
                        place.entry(k).or_default().push(0);
                    }
                    if let Some((s, q)) = sender_of(message) {
                        transit.entry((*target, s)).or_default().push((0, q));
                    }
                }
            }
            // new payloads are those first seen as DeliverAction
            for (k, places) in &place {
                if places.len() > 1 {
                    return Some(Violation::new(prop, "exactly-once", "duplicate-in-system", format!("message {k} is present {} times (stages {:?})", places.len(), places), world.steps));
                }
                let st = places[0];
                let prev = self.stage.get(k).copied();
                match prev {
                    None => {
                        self.stage.insert(k.clone(), st);
                    }
                    Some(p) if st < p => {
                        return Some(Violation::new(prop, "exactly-once", "reappeared", format!("message {k} went back from stage {p} to stage {st}"), world.steps));
                    }
                    Some(_) => {
                        self.stage.insert(k.clone(), st);
                    }
                }
            }
            // payloads that vanished: must have been in a mailbox (stage 2) -> consumed; from
            // stage 0/1 they may only move forward, never disappear
            let keys: Vec<String> = self.stage.keys().cloned().collect();
            for k in keys {
                if !place.contains_key(&k) {
                    let p = self.stage[&k];
                    if p == 3 {
                        continue;
                    }
                    if p == 2 {
                        self.stage.insert(k, 3);
                    } else {
                        // it may have been delivered and consumed within one worker turn (stage 1 -> mailbox -> taken)
                        // which is legal only if the turn that just ran was the target worker's; otherwise it was lost
                        let target: usize = k.split("<-").next().and_then(|t| t.parse().ok()).unwrap_or(usize::MAX);
                        let tw = world.worker_of(target);
                        let ran_target_worker = tw.is_some_and(|w| out.actor == 1 + w);
                        let target_exists = tw.is_some_and(|w| world.workers[w].verif_executor().get_process(target).is_some());
                        if p == 1 && ran_target_worker && target_exists {
                            self.stage.insert(k, 3);
                        } else if p == 1 && ran_target_worker && !target_exists {
                            return Some(Violation::new(prop, "exactly-once", "delivered-to-missing-process", format!("message {k} was delivered to its worker before the target process existed and was dropped"), world.steps));
                        } else {
                            return Some(Violation::new(prop, "exactly-once", "lost-in-transit", format!("message {k} vanished from stage {p} (actor {} ran)", out.actor), world.steps));
                        }
                    }
                }
            }
            // in-transit FIFO per (target, sender): mailbox (front..back), then DeliverMessage, then DeliverAction
            for ((target, sender), mut items) in transit.into_iter().filter(|_| self.check_fifo) {
                items.sort_by_key(|(st, _)| std::cmp::Reverse(*st));
                // stable sort keeps queue order inside a stage
                let seqs: Vec<u64> = items.iter().map(|(_, q)| *q).collect();
                if seqs.windows(2).any(|w| w[0] >= w[1]) {
                    return Some(Violation::new(prop, "fifo", "in-transit-order", format!("messages from sender {sender} to process {target} are out of order in transit/mailbox: {:?}", items), world.steps));
                }
            }
        }
        // --- M-await-lost
        let pending: BTreeSet<usize> = world.env.verif_pending_awaits().iter().map(|(a, _, _)| *a).collect();
        let mut naming: BTreeSet<usize> = BTreeSet::new();
        for (_, e) in &in_evt {
            match e {
                Event::AwaitAction { awaiter, .. } | Event::ProcessResults { awaiter, .. } => {
                    naming.insert(*awaiter);
                }
                _ => {}
            }
        }
        for (_, c) in &in_cmd {
            match c {
                Command::QueryAndAwait { awaiter, .. } | Command::UpdateAwaitResults { awaiter, .. } => {
                    naming.insert(*awaiter);
                }
                _ => {}
            }
        }
        for w in &world.workers {
            let ex = w.verif_executor();
            for pid in ex.verif_parked().selecting {
                if pending.contains(&pid) || naming.contains(&pid) {
                    continue;
                }
                let Some(p) = ex.get_process(pid) else { continue };
                if p.result.is_some() {
                    continue;
                }
                for (target, known) in &p.awaiting {
                    if known.is_some() {
                        continue;
                    }
                    // is the target listed in the current select?
                    let listed = p.select_state.as_ref().is_some_and(|s| s.sources.iter().any(|v| matches!(v, Value::Process(t, _) if t == target)));
                    if !listed {
                        continue;
                    }
                    if let Some(tw) = world.worker_of(*target) {
                        let done = world.workers[tw].verif_executor().get_process(*target).is_some_and(|tp| tp.result.is_some());
                        if done {
                            return Some(Violation::new(prop, "lost-wakeup", "completion-lost", format!("process {pid} is parked in a select awaiting process {target}, which has finished; no await-protocol message for {pid} is in flight and the environment holds no pending await, yet {pid}'s worker does not know the result"), world.steps));
                        }
                    }
                }
            }
        }
        let _ = Shared::pending_cmds;
        self.seen_msgs = sh.msgs.len();
        None
    }

    fn at_end(&mut self, world: &World, _client: &Client, end: &EndState) -> Vec<Violation> {
        let mut v = Vec::new();
        if world.cfg.event_driven && matches!(end, EndState::Completed | EndState::Hang) {
            self.probe("quiescence_checked_event_driven");
        }
        if matches!(end, EndState::Completed | EndState::Hang) && !world.dead {
            // nobody may be left parked in `spawning`
            for (wi, w) in world.workers.iter().enumerate() {
                let sp = w.verif_executor().verif_parked().spawning;
                if !sp.is_empty() {
                    v.push(Violation::new(self.prop, "spawn-notification", "left-spawning", format!("at quiescence processes {:?} on worker {wi} are still parked in `spawning`", sp), world.steps));
                }
            }
        }
        if matches!(end, EndState::Hang) {
            // describe who is parked, for the report
            let mut desc = Vec::new();
            for (wi, w) in world.workers.iter().enumerate() {
                let ex = w.verif_executor();
                for pid in ex.verif_parked().selecting {
                    if let Some(p) = ex.get_process(pid) {
                        if p.result.is_none() {
                            desc.push(format!("w{wi}:p{pid} selecting mailbox={} awaiting={:?}", p.mailbox.len(), p.awaiting.iter().map(|(k, v)| (*k, v.is_some())).collect::<Vec<_>>()));
                        }
                    }
                }
            }
            world.sh.lock().unwrap().note(|| format!("HANG: {}", desc.join("; ")));
        }
        v
    }

    fn probes(&self) -> BTreeMap<String, u64> {
        self.probes.clone()
    }
}
