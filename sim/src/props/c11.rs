//! C11 — REPL evaluation is equivalent to evaluating the lines as one program.

use super::{Property, RefData, Scenario, Tier, reference_spec, run_spec};
use crate::client::{ClientOp, Out};
use crate::rng::Rng;
use crate::run::{EndState, Monitor, RunResult, RunSpec, Violation};
use serde::{Deserialize, Serialize};

pub struct C11;

#[derive(Clone, Debug, Serialize, Deserialize)]
pub struct Step {
    pub src: String,
    /// a type alias declaration: must start its line; hoisted to the front of one-shot programs
    pub alias: bool,
    /// evaluates to a runtime error (always the last step)
    pub fails: bool,
    /// a tail call at the top level: later steps of the one-program form never run, so the
    /// property is silent afterwards (the session must nevertheless stay alive)
    #[serde(default)]
    pub tailcall: bool,
    /// a type pattern that narrows this variable for the steps after it
    #[serde(default)]
    pub narrows: Option<String>,
    /// only type-checks with this variable narrowed by an earlier step
    #[serde(default)]
    pub needs_narrowed: Option<String>,
    /// defines a function whose branches have different result types (call sites specialise)
    #[serde(default)]
    pub dispatch_def: Option<String>,
    /// calls such a function; its static result type depends on the call-site specialisation
    #[serde(default)]
    pub dispatch_call: Option<String>,
}

#[derive(Clone, Debug, Serialize, Deserialize, Default)]
pub struct Expect {
    pub steps: Vec<Step>,
    /// value of the one-shot program made of steps[..=k]
    pub prefix_values: Vec<Out>,
    /// variables (name, type, value) of the one-shot session after steps[..=k]
    pub prefix_vars: Vec<Vec<(String, String, String)>>,
    pub rejected: Vec<String>,
    pub other_session: Vec<String>,
}

const REJECTED: [&str; 13] = [
    "zz9",
    "i0 = = 5",
    "[1, 2",
    "[0x00, 1] __integer_add__",
    "%nosuchmodule",
    "5 unknownfn",
    "x = #'int { [~, zz] __integer_add__ }",
    "'bad = ",
    // rejected only after an import has been resolved
    "[1, 4] %mm.add [~, nope] %mm.add",
    "%mm.k [~, 0x00] %mm.add",
    "q = %mm2, q.nosuchfield",
    // rejected for a reason the grammar "cannot" reach: a positional index no machine word holds
    "qq0.99999999999999999999999",
    "[1, 2] { =[a, b] => a.340282366920938463463374607431768211456 }",
];
const MM: &str = "[add: #['int, 'int] { __integer_add__ }, k: 7, b: [0x0a, 0x0b] __binary_concat__]";
/// widens an int to 'bin | 'int
const WD: &str = "wd = #'int { | =0 => 0x00 | =n => n }";
const MM2: &str = "[twice: #'int { [~, 2] __integer_multiply__ }]";

struct G {
    ints: Vec<String>,
    bins: Vec<String>,
    tuples: Vec<String>,
    fns: Vec<String>,
    gfns: Vec<String>,
    procs: Vec<String>,
    hfns: Vec<String>,
    optf: Vec<String>,
    clsf: Vec<String>,
    unions: Vec<String>,
    narrowed: Vec<String>,
    dispf: Vec<String>,
    n: usize,
    last_int: bool,
    lit: u8,
}

impl G {
    fn fresh(&mut self, p: &str) -> String {
        self.n += 1;
        format!("{p}{}", self.n)
    }
    fn int_expr(&mut self, rng: &mut Rng) -> String {
        if self.ints.is_empty() || rng.chance(1, 3) {
            return rng.range(1, 90).to_string();
        }
        let a = rng.pick(&self.ints).clone();
        match rng.below(3) {
            0 => format!("[{a}, {}] __integer_add__", rng.range(1, 9)),
            1 => {
                let b = rng.pick(&self.ints).clone();
                format!("[{a}, {b}] __integer_multiply__")
            }
            _ => a,
        }
    }
    fn bin_lit(&mut self) -> String {
        self.lit = self.lit.wrapping_add(1).max(1);
        format!("0x{:02x}{:02x}", self.lit, self.lit.wrapping_mul(7))
    }
    fn bin_expr(&mut self, rng: &mut Rng) -> String {
        if self.bins.is_empty() || rng.chance(1, 3) {
            if rng.chance(1, 2) {
                return self.bin_lit();
            }
            let (a, b) = (self.bin_lit(), self.bin_lit());
            return format!("[{a}, {b}] __binary_concat__");
        }
        let a = rng.pick(&self.bins).clone();
        let l = self.bin_lit();
        format!("[{a}, {l}] __binary_concat__")
    }
    /// Emitted only at the very start of a scenario, before any fallible step exists: the steps read the
    /// flowing value of the step before them, and after a line that holds a fallible step that value is
    /// typed maybe-nil (the known findings), which would make these steps fail for that other reason.
    fn flow_provenance_steps(&mut self, rng: &mut Rng) -> Vec<Step> {
        let s = |src: String| Step { src, alias: false, fails: false, tailcall: false, narrows: None, needs_narrowed: None, dispatch_def: None, dispatch_call: None };
        let mut out = Vec::new();
        // the same through a FIELD of the flowing value (`.0 =x`) and through a tuple built around it
        // (`t = [~, 1]`): what the variable remembers about where its value came from must not be read
        // against a later line's flowing value either
            let mk = self.fresh("mkq");
            let (a, b) = (rng.range(1, 90), rng.range(1, 90));
            if rng.chance(1, 2) {
                let x = self.fresh("fx");
                out.push(s(format!("{mk} = #'int {{ | =0 => Fp[Fa[a: {a}]] | Fq[Fb[b: {b}]] }}")));
                out.push(s(format!("0 {mk}")));
                out.push(s(format!(".0 ={x}")));
                out.push(s(format!("1 {mk}")));
                out.push(Step { narrows: Some("~".to_string()), ..s(format!(".0 =Fb[b: 'int], {x} {{ | =Fa[a: n] => n | =Fb[b: n] => [n, 100] __integer_add__ }}")) });
            } else {
                let (t, sv) = (self.fresh("ft"), self.fresh("fs"));
                out.push(s(format!("{mk} = #'int {{ | =0 => Fa[a: {a}] | Fb[b: {b}] }}")));
                out.push(s(format!("0 {mk}")));
                out.push(s(format!("{t} = [~, 1]")));
                out.push(s(format!("1 {mk}")));
                out.push(Step { narrows: Some("~".to_string()), ..s(format!("={sv}, {t}.0 =Fa[a: 'int], {sv} {{ | =Fa[a: n] => n | =Fb[b: n] => [n, 100] __integer_add__ }}")) });
            }
            self.last_int = true;
            out
    }
    fn step(&mut self, rng: &mut Rng) -> Vec<Step> {
        let s = |src: String| Step { src, alias: false, fails: false, tailcall: false, narrows: None, needs_narrowed: None, dispatch_def: None, dispatch_call: None };
        let mut out = Vec::new();
        let was_int = self.last_int;
        self.last_int = false;
        // frequent special cases first: value steps, uses of the flowing value, alias-only steps
        if was_int && rng.chance(1, 4) {
            out.push(s(format!("[~, {}] __integer_add__", rng.range(1, 9))));
            self.last_int = true;
            return out;
        }
        // a variable of a union type, narrowed by a type pattern on one step and used at the narrowed
        // type on a later one
        if !self.narrowed.is_empty() && rng.chance(1, 4) {
            let u = rng.pick(&self.narrowed).clone();
            out.push(Step { src: format!("[{u}, {}] __integer_add__", rng.range(1, 9)), alias: false, fails: false, tailcall: false, narrows: None, needs_narrowed: Some(u), dispatch_def: None, dispatch_call: None });
            self.last_int = true;
            return out;
        }
        if !self.unions.is_empty() && rng.chance(1, 3) {
            let u = self.unions.remove(rng.usize(self.unions.len()));
            out.push(Step { src: format!("{u} ='int"), alias: false, fails: false, tailcall: false, narrows: Some(u.clone()), needs_narrowed: None, dispatch_def: None, dispatch_call: None });
            self.narrowed.push(u);
            return out;
        }
        // a function whose branches have different result types: a call site with an int argument is
        // specialised to 'int, so the flowing result can be used as an int on the next step
        if !self.dispf.is_empty() && rng.chance(1, 4) {
            let f = rng.pick(&self.dispf).clone();
            out.push(Step { src: format!("{} {f}", rng.range(1, 60)), alias: false, fails: false, tailcall: false, narrows: None, needs_narrowed: None, dispatch_def: None, dispatch_call: Some(f) });
            self.last_int = true;
            return out;
        }
        if rng.chance(1, 16) {
            let f = self.fresh("dz");
            out.push(Step { src: format!("{f} = #('int | 'bin) {{ | =('int)n => n | =('bin)b => Bin }}"), alias: false, fails: false, tailcall: false, narrows: None, needs_narrowed: None, dispatch_def: Some(f.clone()), dispatch_call: None });
            self.dispf.push(f);
            return out;
        }
        // a name re-bound to a value of another type (another tuple name, another tuple length), then
        // dispatched on / destructured: what was known about the old holder of the name is void
        if rng.chance(1, 16) {
            let v = self.fresh("tv");
            if rng.chance(1, 2) {
                out.push(s(format!("{v} = A[{}]", rng.range(1, 9))));
                out.push(s(format!("{v} = B[{}]", rng.range(1, 9))));
                out.push(s(format!("{v} {{ | =A[n] => 1 | =B[n] => 2 }}")));
                self.last_int = true;
            } else {
                let (p, q, r) = (self.fresh("i"), self.fresh("i"), self.fresh("i"));
                out.push(s(format!("{v} = [{}, 64]", rng.range(1, 9))));
                out.push(s(format!("{v} = [{}, 60, 29]", rng.range(1, 90))));
                out.push(s(format!("[{p}, {q}, {r}] = {v}")));
                self.ints.push(p);
                self.ints.push(q);
                self.ints.push(r);
            }
            return out;
        }
        // a variable bound from the flowing value; later the flowing value - another one by then - is
        // type-tested: that test says nothing about the variable
        if rng.chance(1, 16) {
            let v = self.fresh("sv");
            out.push(s(format!("{{ | 1 =1 => {} | 0x00 }}", rng.range(1, 90))));
            out.push(s(format!("={v}")));
            out.push(s("{ | 1 =1 => 0x01 | 7 }".to_string()));
            // (a fallible pattern step: the line's result type includes nil)
            out.push(Step { narrows: Some("~".to_string()), ..s(format!("='bin, {v} {{ | ='int => 1 | 2 }}")) });
            self.last_int = true;
            return out;
        }
        // mail for the session's own process: a child sends two numbered messages, the first is taken
        // by the step that spawned it, the second by a later step - on a later line it may have arrived
        // while the session slept between lines
        if rng.chance(1, 16) {
            let (f, c) = (self.fresh("sndq"), self.fresh("lc"));
            let (m1, m2) = (rng.range(100, 400), rng.range(500, 900));
            let sp = *rng.pick(&[0u32, 10, 80, 300]);
            out.push(s(format!("{f} = #(@'int) {{ =to, {m1} to, w = [{sp}, 0] spin, {m2} to, 0 }}")));
            out.push(s(format!("{c} = &. @{f}, !#'int")));
            if rng.chance(1, 2) {
                out.push(s(format!("[~, {}] __integer_add__", rng.range(1, 9))));
            }
            out.push(s("!#'int".to_string()));
            self.last_int = true;
            return out;
        }
        if rng.chance(1, 14) {
            let u = self.fresh("u");
            out.push(s(format!("{u} = {} wd", rng.range(1, 90))));
            self.unions.push(u);
            return out;
        }
        if rng.chance(1, 10) {
            let ty = self.fresh("al");
            out.push(Step { src: format!("'{ty} = ['int, 'bin]"), alias: true, fails: false, tailcall: false, narrows: None, needs_narrowed: None, dispatch_def: None, dispatch_call: None });
            self.last_int = was_int;
            return out;
        }
        if rng.chance(1, 6) {
            out.push(s(self.int_expr(rng)));
            self.last_int = true;
            return out;
        }
        if !self.procs.is_empty() && rng.chance(1, 5) {
            let p = self.procs.remove(rng.usize(self.procs.len()));
            out.push(s(format!("!{p}")));
            return out;
        }
        if rng.chance(1, 10) {
            let n = self.fresh("p");
            out.push(s(format!("{n} = @{{ [{}, 0] spin }}", *rng.pick(&[10u32, 60, 200]))));
            self.procs.push(n);
            return out;
        }
        if !self.ints.is_empty() && rng.chance(1, 8) {
            let a = rng.pick(&self.ints).clone();
            let n = self.fresh("f");
            out.push(s(format!("{n} = #'int {{ [~, {a}] __integer_add__ }}")));
            self.fns.push(n);
            return out;
        }
        if !self.fns.is_empty() && rng.chance(1, 6) {
            let f = rng.pick(&self.fns).clone();
            out.push(Step { src: format!("{} ^{f}", rng.range(1, 30)), alias: false, fails: false, tailcall: true, narrows: None, needs_narrowed: None, dispatch_def: None, dispatch_call: None });
            return out;
        }
        match rng.below(28) {
            24 => {
                // an alias-only step is transparent to the flow: the previous value keeps flowing
                let ty = self.fresh("al");
                out.push(Step { src: format!("'{ty} = ['int, 'bin]"), alias: true, fails: false, tailcall: false, narrows: None, needs_narrowed: None, dispatch_def: None, dispatch_call: None });
                self.last_int = was_int;
                if was_int && rng.chance(1, 2) {
                    out.push(s(format!("[~, {}] __integer_add__", rng.range(1, 9))));
                }
            }
            25 => {
                // a member of an in-memory module (first use may be on any line)
                let e = self.int_expr(rng);
                out.push(s(format!("[{e}, {}] %mm.add", rng.range(1, 9))));
                self.last_int = true;
            }
            26 => {
                let n = self.fresh("i");
                out.push(s(format!("{n} = %mm.k %mm2.twice")));
                self.ints.push(n);
            }
            27 => {
                let n = self.fresh("b");
                out.push(s(format!("{n} = [%mm.b, {}] __binary_concat__", self.bin_lit())));
                self.bins.push(n);
            }
            20 => {
                // a pattern type whose set of inhabitants grows on later lines
                let (v, o) = (self.fresh("vv"), self.fresh("opt"));
                out.push(Step { src: format!("'{v} = 'int | 'bin"), alias: true, fails: false, tailcall: false, narrows: None, needs_narrowed: None, dispatch_def: None, dispatch_call: None });
                out.push(Step { src: format!("'{o} = Some['{v}] | None"), alias: true, fails: false, tailcall: false, narrows: None, needs_narrowed: None, dispatch_def: None, dispatch_call: None });
                let n = self.fresh("of");
                out.push(s(format!("{n} = #'{o} {{ | =Some[x] => x | 0 }}")));
                self.optf.push(n);
            }
            21 if !self.optf.is_empty() => {
                let f = rng.pick(&self.optf).clone();
                match rng.below(3) {
                    0 => {
                        out.push(s(format!("Some[{}] {f}", rng.range(1, 99))));
                    }
                    1 => {
                        let l = self.bin_lit();
                        out.push(s(format!("Some[{l}] {f}")));
                    }
                    _ => {
                        out.push(s(format!("None {f}")));
                    }
                }
            }
            22 => {
                let n = self.fresh("cl");
                out.push(s(format!("{n} = #('int | (#'int -> 'int)) {{ | =(#'int -> 'int) => 1 | 0 }}")));
                self.clsf.push(n);
            }
            23 if !self.clsf.is_empty() => {
                let g = rng.pick(&self.clsf).clone();
                if !self.fns.is_empty() && rng.chance(2, 3) {
                    let f = rng.pick(&self.fns).clone();
                    out.push(s(format!("&{f} {g}")));
                } else {
                    out.push(s(format!("{} {g}", rng.range(1, 9))));
                }
                self.last_int = true;
            }
            0..=2 => {
                let e = self.int_expr(rng);
                let n = self.fresh("i");
                out.push(s(format!("{n} = {e}")));
                self.ints.push(n);
            }
            3..=4 => {
                let e = self.bin_expr(rng);
                let n = self.fresh("b");
                out.push(s(format!("{n} = {e}")));
                self.bins.push(n);
            }
            5 if !self.ints.is_empty() => {
                let a = rng.pick(&self.ints).clone();
                out.push(s(format!("{a} = [{a}, 1] __integer_add__")));
            }
            6 if !self.bins.is_empty() => {
                let a = rng.pick(&self.bins).clone();
                let l = self.bin_lit();
                out.push(s(format!("{a} = [{a}, {l}] __binary_concat__")));
            }
            7 => {
                let e = self.int_expr(rng);
                let (p, q) = (self.fresh("i"), self.fresh("i"));
                out.push(s(format!("[{p}, {q}] = [{e}, {}]", rng.range(1, 50))));
                self.ints.push(p);
                self.ints.push(q);
            }
            8 => {
                let x = self.int_expr(rng);
                let y = self.bin_expr(rng);
                let n = self.fresh("t");
                out.push(s(format!("{n} = P[x: {x}, y: {y}]")));
                self.tuples.push(n);
            }
            9 if !self.tuples.is_empty() => {
                let t = rng.pick(&self.tuples).clone();
                if rng.chance(1, 2) {
                    out.push(s(format!("{t}.x")));
                    self.last_int = true;
                } else {
                    out.push(s(format!("{t}.y")));
                }
            }
            10 if !self.ints.is_empty() => {
                let a = rng.pick(&self.ints).clone();
                let n = self.fresh("f");
                out.push(s(format!("{n} = #'int {{ [~, {a}] __integer_add__ }}")));
                self.fns.push(n);
            }
            11 if !self.fns.is_empty() => {
                let f = rng.pick(&self.fns).clone();
                out.push(s(format!("{} {f}", rng.range(1, 30))));
                self.last_int = true;
            }
            12 if !self.bins.is_empty() => {
                let a = rng.pick(&self.bins).clone();
                let l = self.bin_lit();
                let n = self.fresh("g");
                out.push(s(format!("{n} = #{{ [{a}, {l}] __binary_concat__ }}")));
                self.gfns.push(n);
            }
            13 if !self.gfns.is_empty() => {
                let g = rng.pick(&self.gfns).clone();
                out.push(s(g));
            }
            14 => {
                match rng.below(4) {
                    0 if !self.ints.is_empty() => {
                        out.push(s(rng.pick(&self.ints).clone()));
                        self.last_int = true;
                    }
                    1 if !self.bins.is_empty() => out.push(s(rng.pick(&self.bins).clone())),
                    2 if !self.ints.is_empty() && !self.bins.is_empty() => {
                        let (a, b) = (rng.pick(&self.ints).clone(), rng.pick(&self.bins).clone());
                        out.push(s(format!("[{a}, {b}]")));
                    }
                    _ => {
                        out.push(s(rng.range(1, 99).to_string()));
                        self.last_int = true;
                    }
                }
            }
            15 if was_int => {
                out.push(s(format!("[~, {}] __integer_add__", rng.range(1, 9))));
                self.last_int = true;
            }
            16 => {
                let ty = self.fresh("ty");
                out.push(Step { src: format!("'{ty} = 'int | 'bin"), alias: true, fails: false, tailcall: false, narrows: None, needs_narrowed: None, dispatch_def: None, dispatch_call: None });
                let n = self.fresh("h");
                out.push(s(format!("{n} = #'{ty} {{ | ='int => 1 | 2 }}")));
                self.hfns.push(n);
            }
            17 if !self.hfns.is_empty() => {
                let hf = rng.pick(&self.hfns).clone();
                let arg = if !self.bins.is_empty() && rng.chance(1, 2) { rng.pick(&self.bins).clone() } else { rng.range(1, 9).to_string() };
                out.push(s(format!("{arg} {hf}")));
                self.last_int = true;
            }
            18 => {
                // a process that outlives the line
                let n = self.fresh("p");
                match rng.below(3) {
                    0 => out.push(s(format!("{n} = @{{ [{}, 0] spin }}", *rng.pick(&[10u32, 60, 200])))),
                    1 if !self.ints.is_empty() => {
                        let a = rng.pick(&self.ints).clone();
                        out.push(s(format!("{n} = {a} @#'int {{ [~, 1] __integer_add__ }}")));
                    }
                    _ if !self.bins.is_empty() => {
                        let a = rng.pick(&self.bins).clone();
                        out.push(s(format!("{n} = @{{ [{a}, 0xee] __binary_concat__ }}")));
                    }
                    _ => out.push(s(format!("{n} = @{{ 77 }}"))),
                }
                self.procs.push(n);
            }
            19 if !self.procs.is_empty() => {
                let p = rng.pick(&self.procs).clone();
                out.push(s(format!("!{p}")));
            }
            _ => {
                let e = self.int_expr(rng);
                let n = self.fresh("i");
                out.push(s(format!("{n} = {e}")));
                self.ints.push(n);
            }
        }
        out
    }
}

fn one_shot(steps: &[Step]) -> String {
    let aliases: Vec<&str> = steps.iter().filter(|s| s.alias).map(|s| s.src.as_str()).collect();
    let rest: Vec<&str> = steps.iter().filter(|s| !s.alias).map(|s| s.src.as_str()).collect();
    let mut all = aliases;
    all.extend(rest);
    all.join(", ")
}

/// The user edits a module and reloads it in the middle of a session: lines entered afterwards see the
/// edited module, also where they mention one of its TYPES that the session had used before.
fn module_reload(rng: &mut Rng) -> Scenario {
    let n = rng.range(1, 90);
    let mut h = crate::rng::Fnv::default();
    h.u64(0x4e10);
    let type_before = rng.chance(2, 3);
    h.u64(type_before as u64);
    let mut ops = vec![ClientOp::Line { session: 0, src: "%shapes.one".to_string() }];
    let mut want = vec![n.to_string()];
    if type_before {
        ops.push(ClientOp::Line { session: 0, src: "hq = #'%shapes.t { ~ }, 7 hq".to_string() });
        want.push("7".to_string());
    }
    ops.push(ClientOp::Reload { session: 0, path: vec!["shapes".to_string()], src: "'t = 'bin, [one: 0x01]".to_string() });
    ops.push(ClientOp::Line { session: 0, src: "%shapes.one".to_string() });
    want.push("0x01".to_string());
    ops.push(ClientOp::Line { session: 0, src: "gq = #'%shapes.t { ~ }".to_string() });
    want.push("Ok".to_string());
    ops.push(ClientOp::Line { session: 0, src: "0x00 gq".to_string() });
    want.push("0x00".to_string());
    Scenario {
        family: "c11-module-reload".into(),
        ops,
        modules: vec![(vec!["shapes".to_string()], format!("'t = 'int, [one: {n}]"))],
        files: Default::default(),
        timing: false,
        io: false,
        fixed_faults: Default::default(),
        expect: serde_json::json!({ "reload": want }),
        shape: h.0,
        est_len: 120,
        min_quantum: 0,
    }
}

/// A client that enters the next line while the previous one is still running (quiver-web's glue
/// allows it; run configuration of the client, `nowait>`): the running line has bindings before and
/// after a point where it is parked (a spawn, an await), which is when the early line arrives.
fn eager_line(rng: &mut Rng) -> Scenario {
    let (a, b, m) = (rng.range(1, 90), rng.range(1, 90), rng.range(1, 90));
    let sp = *rng.pick(&[0u32, 20, 200]);
    let mut h = crate::rng::Fnv::default();
    h.u64(0xea9e);
    h.u64(sp as u64);
    let ops = vec![
        ClientOp::Line { session: 0, src: format!("{}, z = 100", super::c04::SPIN) },
        ClientOp::Line { session: 0, src: format!("nowait>a = {a}, p = @#{{ !#'int }}, w = [{sp}, 0] spin, b = {b}, {m} p, c = !p, [z, a, b, c]") },
        ClientOp::Line { session: 0, src: "nowait>[z, 7]".to_string() },
        // a second session lets the first come to rest; the first is judged from the process table
        ClientOp::Line { session: 1, src: format!("{}, w = [800, 0] spin", super::c04::SPIN) },
        // a line entered the ordinary way (the client waits for its result): it runs after whatever
        // of the earlier lines was still waiting or running
        ClientOp::Line { session: 0, src: "[z, a, b, c]".to_string() },
        // and the variables, read once that line has answered
        ClientOp::Vars { session: 0 },
    ];
    Scenario {
        family: "c11-eager-client".into(),
        ops,
        modules: vec![],
        files: Default::default(),
        timing: false,
        io: false,
        fixed_faults: Default::default(),
        expect: serde_json::json!({ "eager": [format!("[100, {a}, {b}, {m}]")], "eager_vars": { "z": "100", "a": a.to_string(), "b": b.to_string(), "c": m.to_string() } }),
        shape: h.0,
        est_len: 150,
        min_quantum: 0,
    }
}

impl Property for C11 {
    fn id(&self) -> &'static str {
        "C11"
    }
    fn cases(&self, tier: Tier) -> usize {
        match tier {
            Tier::Quick => 600,
            Tier::Thorough => 4000,
        }
    }
    fn variants(&self, tier: Tier) -> usize {
        match tier {
            Tier::Quick => 16,
            Tier::Thorough => 60,
        }
    }
    fn max_workers(&self) -> usize {
        4
    }
    fn wants_reference(&self) -> bool {
        false
    }
    fn allows_rejected_lines(&self) -> bool {
        true
    }
    fn rule_text(&self) -> &'static str {
        "cases: a generated list of 3-10 steps (int/binary bindings, shadowing, destructuring, named tuples and field access, functions and closures capturing earlier bindings incl. binaries, type aliases, uses of the flowing previous result, processes that outlive their line and are awaited later, an occasional nil-valued step or final runtime error). References: every prefix is evaluated as ONE program in a fresh environment (value and variables). Variants: a random partition of the steps into lines, rejected lines (parse and compile errors) inserted between them, an optional second session in the same environment, variable reads at random boundaries, each under a sampled schedule/configuration, with the C06 heap monitors on. Non-trivial: >=2 workers, >=1 out-of-order handled message, conclusive. Distinct = distinct (scenario shape + partition, interleaving hash)."
    }
    fn required_probes(&self) -> Vec<&'static str> {
        vec!["line_value_compared", "vars_compared", "rejected_line_between_accepted", "line_with_several_steps", "second_session_interleaved", "repl_compaction_with_heap_locals", "background_process_awaited_on_later_line", "lines_after_top_level_tail_call", "vars_read_after_nil_line"]
    }
    fn generate(&self, rng: &mut Rng, _tier: Tier) -> Scenario {
        if rng.chance(1, 30) {
            return eager_line(rng);
        }
        if rng.chance(1, 40) {
            return module_reload(rng);
        }
        let mut g = G { ints: vec![], bins: vec![], tuples: vec![], fns: vec![], gfns: vec![], procs: vec![], hfns: vec![], optf: vec![], clsf: vec![], unions: vec![], narrowed: vec![], dispf: vec![], n: 0, last_int: false, lit: 0x20 };
        let mut steps: Vec<Step> = vec![Step { src: super::c04::SPIN.to_string(), alias: false, fails: false, tailcall: false, narrows: None, needs_narrowed: None, dispatch_def: None, dispatch_call: None }, Step { src: WD.to_string(), alias: false, fails: false, tailcall: false, narrows: None, needs_narrowed: None, dispatch_def: None, dispatch_call: None }];
        let n = 4 + rng.usize(8);
        let mut h = crate::rng::Fnv::default();
        if rng.chance(1, 10) {
            for s in g.flow_provenance_steps(rng) {
                h.str(&s.src.chars().filter(|c| !c.is_ascii_digit()).collect::<String>());
                steps.push(s);
            }
        }
        while steps.len() < n + 1 {
            for s in g.step(rng) {
                h.str(&s.src.chars().filter(|c| !c.is_ascii_digit()).collect::<String>());
                steps.push(s);
            }
        }
        // occasionally a nil-valued step in the middle: the steps after it never run in the
        // one-program form (the property is silent from there on) but the session must stay alive,
        // also when later bindings of the same line were never reached
        if rng.chance(1, 5) && !g.ints.is_empty() {
            let a = g.ints[0].clone();
            // position: anywhere after the step that binds `a`
            let bound_at = steps.iter().position(|s| s.src.starts_with(&format!("{a} = ")) || s.src.contains(&format!("[{a}, ")) || s.src.contains(&format!(", {a}] ="))).unwrap_or(steps.len() - 1);
            let pos = bound_at + 1 + rng.usize(steps.len() - bound_at);
            let pos = (pos..=steps.len()).find(|p| *p >= steps.len() || (!steps[*p].alias && !steps[*p].src.starts_with("[~"))).unwrap_or(steps.len());
            steps.insert(pos.min(steps.len()), Step { src: format!("{a} =999999"), alias: false, fails: false, tailcall: false, narrows: None, needs_narrowed: None, dispatch_def: None, dispatch_call: None });
            h.u64(0x111);
        }
        if rng.chance(1, 8) && !g.ints.is_empty() {
            let a = g.ints[0].clone();
            steps.push(Step { src: format!("[{a}, 0] __integer_divide__"), alias: false, fails: true, tailcall: false, narrows: None, needs_narrowed: None, dispatch_def: None, dispatch_call: None });
            h.u64(0xdead);
        }
        let mut rejected = Vec::new();
        let nrej = rng.usize(4);
        for _ in 0..nrej {
            rejected.push(rng.pick(&REJECTED).to_string());
        }
        let other_session = if rng.chance(1, 3) {
            vec!["q1 = Other[a: 1, b: 0x0102]".to_string(), "q2 = #'bin { [~, 0x99] __binary_concat__ }, q1.b q2".to_string(), "Zed[1, 2, 3]".to_string()]
        } else {
            vec![]
        };
        let expect = Expect { steps, prefix_values: vec![], prefix_vars: vec![], rejected, other_session };
        Scenario {
            family: "c11-session".into(),
            ops: vec![],
            modules: vec![(vec!["mm".to_string()], MM.to_string()), (vec!["mm2".to_string()], MM2.to_string())],
            files: Default::default(),
            timing: false,
            io: false,
            fixed_faults: Default::default(),
            expect: serde_json::to_value(&expect).unwrap(),
            shape: h.0,
            est_len: 200,
            min_quantum: 0,
        }
    }
    fn prepare(&self, scn: &mut Scenario, case_seed: u64) -> Vec<(Violation, RunSpec, RunResult)> {
        if scn.expect.get("eager").is_some() || scn.expect.get("reload").is_some() {
            return Vec::new();
        }
        let mut e: Expect = serde_json::from_value(scn.expect.clone()).unwrap();
        let mut bad = Vec::new();
        let mut est = 0;
        for k in 0..e.steps.len() {
            let src = one_shot(&e.steps[..=k]);
            let mut ops = vec![ClientOp::Line { session: 0, src }];
            ops.push(ClientOp::Vars { session: 0 });
            let mut s2 = scn.clone();
            s2.ops = ops;
            let spec = reference_spec(&s2, case_seed);
            let r = run_spec(self, &s2, spec.clone(), false);
            est = est.max(r.steps);
            let val = r.outs.first().cloned().unwrap_or(Out::Skipped);
            if matches!(val, Out::ParseError | Out::CompileError(_)) && !matches!(r.end, EndState::Dead) {
                bad.push((Violation::new("HARNESS", "scenario-rejected", "generator-bug", format!("one-shot prefix {k} rejected: {:?}", val), r.steps), spec, r));
                break;
            }
            if !matches!(r.end, EndState::Completed) {
                let f = r.failure.clone().unwrap_or_default();
                bad.push((Violation::new("C11", "one-shot", "reference-did-not-complete", format!("one-shot prefix {k} ended {:?} {f}", r.end), r.steps), spec, r));
                break;
            }
            let vars = match r.outs.get(1) {
                Some(Out::Vars(v)) => v.clone(),
                _ => vec![],
            };
            e.prefix_values.push(val);
            e.prefix_vars.push(vars);
        }
        scn.est_len = (est * 3).max(100);
        scn.expect = serde_json::to_value(&e).unwrap();
        bad
    }
    fn variant_ops(&self, scn: &Scenario, rng: &mut Rng) -> Option<Vec<ClientOp>> {
        let e: Expect = serde_json::from_value(scn.expect.clone()).ok()?;
        let mut ops = Vec::new();
        let mut cur: Vec<String> = Vec::new();
        let mut rej = e.rejected.clone();
        let mut other = e.other_session.clone();
        other.reverse();
        let flush = |cur: &mut Vec<String>, ops: &mut Vec<ClientOp>| {
            if !cur.is_empty() {
                ops.push(ClientOp::Line { session: 0, src: cur.join(", ") });
                cur.clear();
            }
        };
        let vars_at = rng.usize(e.steps.len());
        for (k, s) in e.steps.iter().enumerate() {
            if s.alias {
                // must start its line
                flush(&mut cur, &mut ops);
            }
            cur.push(s.src.clone());
            let is_last = k + 1 == e.steps.len();
            // an alias must not end its line alone unless followed by a non-alias... a line of only aliases is fine (NoCode)
            if is_last || rng.chance(1, 2) {
                flush(&mut cur, &mut ops);
                if k == vars_at || is_last {
                    ops.push(ClientOp::Vars { session: 0 });
                }
                if !rej.is_empty() && rng.chance(1, 2) {
                    ops.push(ClientOp::Line { session: 0, src: rej.pop().unwrap() });
                }
                if !other.is_empty() && rng.chance(1, 2) {
                    ops.push(ClientOp::Line { session: 1, src: other.pop().unwrap() });
                }
            }
        }
        if std::env::var("QSIM_DEBUG").is_ok() {
            for o in &ops {
                if let ClientOp::Line { src, .. } = o && (src.contains("'al") || src.contains("[~")) { eprintln!("AL-LINE: {src}"); }
            }
            for w in ops.windows(2) {
                if let (ClientOp::Line { src: a, .. }, ClientOp::Line { src: b, .. }) = (&w[0], &w[1])
                    && a.starts_with("'al")
                    && a.ends_with("'bin]")
                    && b.starts_with("[~")
                {
                    eprintln!("ALIAS-THEN-FLOW: {a} || {b}");
                }
            }
        }
        Some(ops)
    }
    fn monitor(&self, _scn: &Scenario) -> Box<dyn Monitor + Send> {
        Box::new(super::c06::HeapMonitor::new("C11"))
    }
    fn pinned(&self) -> Vec<super::Pinned> {
        // static facts established by a fallible pattern step are not carried to later lines
        let st = |src: &str, narrows: Option<&str>, needs: Option<&str>| Step { src: src.to_string(), alias: false, fails: false, tailcall: false, narrows: narrows.map(|s| s.to_string()), needs_narrowed: needs.map(|s| s.to_string()), dispatch_def: None, dispatch_call: None };
        let mut out = Vec::new();
        const DZ: &str = "dz = #('int | 'bin) { | =('int)n => n | =('bin)b => Bin }";
        let cases: [(&'static str, &'static str, Vec<Step>, Vec<&str>); 3] = [
            (
                "C11/line-value/dispatch-specialisation-not-carried-across-lines",
                "a function dispatching on its argument's type is defined on one line and called on a later one",
                vec![
                    Step { dispatch_def: Some("dz".to_string()), ..st(DZ, None, None) },
                    Step { dispatch_call: Some("dz".to_string()), ..st("7 dz", None, None) },
                    st("[~, 1] __integer_add__", None, None),
                ],
                vec![DZ, "7 dz", "[~, 1] __integer_add__"],
            ),
            (
                "C11/line-value/narrowing-not-carried-across-lines",
                "a variable narrowed by a type pattern on one line is used at the narrowed type on the next",
                vec![st(WD, None, None), st("u1 = 7 wd", None, None), st("u1 ='int", Some("u1"), None), st("[u1, 1] __integer_add__", None, Some("u1"))],
                vec![WD, "u1 = 7 wd", "u1 ='int", "[u1, 1] __integer_add__"],
            ),
            (
                "C11/line-value/flow-typed-maybe-nil-after-fallible-line",
                "the flowing value is used right after a line that holds a fallible pattern step",
                vec![st(WD, None, None), st("u1 = 7 wd", None, None), st("u1 ='int", Some("u1"), None), st("5", None, None), st("[~, 1] __integer_add__", None, None)],
                vec![WD, "u1 = 7 wd", "u1 ='int, 5", "[~, 1] __integer_add__"],
            ),
        ];
        for (key, what, steps, lines) in cases {
            let expect = Expect { steps, prefix_values: vec![], prefix_vars: vec![], rejected: vec![], other_session: vec![] };
            let mut scenario = Scenario {
                family: "c11-pinned".into(),
                ops: vec![],
                modules: vec![],
                files: Default::default(),
                timing: false,
                io: false,
                fixed_faults: Default::default(),
                expect: serde_json::to_value(&expect).unwrap(),
                shape: 1,
                est_len: 100,
                min_quantum: 0,
            };
            if !self.prepare(&mut scenario, 1).is_empty() {
                continue;
            }
            scenario.ops = lines.iter().map(|l| ClientOp::Line { session: 0, src: l.to_string() }).collect();
            let spec = reference_spec(&scenario, 1);
            out.push(super::Pinned { key, what, scenario, spec });
        }
        out
    }
    /// Once a line has evaluated to nil (or left through a top-level tail call, or failed), the
    /// one-program form never reaches the later steps: bindings of that line that were not reached
    /// read as nil afterwards, and e.g. awaiting such a "process" blocks the session's own line for
    /// ever. The statement is silent there (a worker crash would still be reported).
    fn excuses_hang(&self, scn: &Scenario, r: &RunResult) -> bool {
        let Ok(e) = serde_json::from_value::<Expect>(scn.expect.clone()) else { return false };
        for (op, out) in r.ops.iter().zip(r.outs.iter()) {
            if let ClientOp::Line { session: 0, src } = op {
                if e.rejected.contains(src) {
                    continue;
                }
                // (a line of the program that was rejected - judged on its own, as a violation or a
                // known finding - leaves later lines without its bindings: a receive whose sender was
                // never spawned waits for ever, legitimately)
                let silent = matches!(out, Out::Value(s) if s == "[]") || matches!(out, Out::RuntimeError(_) | Out::CompileError(_) | Out::ParseError) || e.steps.iter().any(|s| s.tailcall && src.contains(&s.src));
                if silent {
                    return true;
                }
            }
        }
        false
    }
    fn run_probes(&self, scn: &Scenario, r: &RunResult) -> std::collections::BTreeMap<String, u64> {
        let mut m = std::collections::BTreeMap::new();
        let Ok(e) = serde_json::from_value::<Expect>(scn.expect.clone()) else { return m };
        let mut prev_accepted = false;
        let mut seen_tail = false;
        for op in &r.ops {
            if let ClientOp::Line { session: 0, src } = op {
                if seen_tail && !e.rejected.contains(src) {
                    *m.entry("lines_after_top_level_tail_call".to_string()).or_insert(0) += 1;
                }
                if src.contains(" ^f") {
                    seen_tail = true;
                }
            }
        }
        for (op, out) in r.ops.iter().zip(r.outs.iter()) {
            match (op, out) {
                (ClientOp::Line { session: 0, src }, Out::Value(_)) if !e.rejected.contains(src) => *m.entry("line_value_compared".to_string()).or_insert(0) += 1,
                (ClientOp::Vars { .. }, Out::Vars(x)) if !x.is_empty() => *m.entry("vars_compared".to_string()).or_insert(0) += 1,
                _ => {}
            }
        }
        let mut nil_seen = false;
        for (op, out) in r.ops.iter().zip(r.outs.iter()) {
            match (op, out) {
                (ClientOp::Line { session: 0, src }, Out::Value(x)) if x == "[]" && !e.rejected.contains(src) => nil_seen = true,
                (ClientOp::Line { session: 0, .. }, Out::RuntimeError(_)) => nil_seen = false,
                (ClientOp::Vars { session: 0 }, Out::Vars(x)) if nil_seen && !x.is_empty() => *m.entry("vars_read_after_nil_line".to_string()).or_insert(0) += 1,
                _ => {}
            }
        }
        for (i, op) in r.ops.iter().enumerate() {
            if let ClientOp::Line { session, src } = op {
                if *session == 1 {
                    *m.entry("second_session_interleaved".to_string()).or_insert(0) += 1;
                    continue;
                }
                if e.rejected.contains(src) {
                    if prev_accepted && r.ops[i + 1..].iter().any(|o| matches!(o, ClientOp::Line { session: 0, src } if !e.rejected.contains(src))) {
                        *m.entry("rejected_line_between_accepted".to_string()).or_insert(0) += 1;
                    }
                } else {
                    prev_accepted = true;
                    if src.contains(", ") && !src.starts_with("spin =") {
                        *m.entry("line_with_several_steps".to_string()).or_insert(0) += 1;
                    }
                    if src.starts_with('!') {
                        *m.entry("background_process_awaited_on_later_line".to_string()).or_insert(0) += 1;
                    }
                }
            }
        }
        m
    }
    fn judge(&self, scn: &Scenario, _refdata: Option<&RefData>, r: &RunResult) -> Vec<Violation> {
        let mut v = Vec::new();
        if let Some(want) = scn.expect.get("reload").and_then(|x| x.as_array()) {
            // after an edit and a reload the session's lines see the edited module - its values AND its
            // types - as a fresh session over the edited package would
            let got: Vec<String> = r
                .ops
                .iter()
                .zip(r.outs.iter())
                .filter(|(op, _)| matches!(op, ClientOp::Line { session: 0, .. }))
                .map(|(_, out)| match out {
                    Out::Value(s) => s.clone(),
                    other => format!("{:?}", other),
                })
                .collect();
            let want: Vec<String> = want.iter().map(|x| x.as_str().unwrap_or("").to_string()).collect();
            if got != want {
                v.push(Violation::new("C11", "line-value", "stale-module-after-reload", format!("the session's lines yielded {:?}; with the module as edited before the reload they yield {:?}", got, want), r.steps));
            }
            return v;
        }
        if let Some(legal) = scn.expect.get("eager").and_then(|x| x.as_array()) {
            // a line entered while the previous one still runs waits until the session process sleeps
            // and runs then: every line takes effect, in the order entered; the last line (entered the
            // ordinary way) reads back what the running line bound
            let got = r.procs.get("R0").cloned().unwrap_or_default();
            if !legal.iter().any(|l| l.as_str() == Some(got.as_str())) {
                v.push(Violation::new("C11", "line-value", "running-line-damaged-by-early-line", format!("the session process ended with {got}; the line that was running when the next one was entered yields {}, as the same steps do as one program", legal[0]), r.steps));
                return v;
            }
            // whichever of the two happened, the bindings of the running line keep their values
            if let (Some(want), Some(Out::Vars(vars))) = (scn.expect.get("eager_vars").and_then(|x| x.as_object()), r.outs.iter().rev().find(|o| matches!(o, Out::Vars(_)))) {
                for (name, val) in want {
                    let got = vars.iter().find(|(n, _, _)| n == name).map(|(_, _, v)| v.clone());
                    if got.as_deref() != val.as_str() {
                        v.push(Violation::new("C11", "variables", "session-bindings-damaged-by-early-line", format!("after a line was entered while the previous one was still running, variable {name} reads {:?}; the running line bound it to {}", got, val), r.steps));
                        break;
                    }
                }
            }
            return v;
        }
        let Ok(e) = serde_json::from_value::<Expect>(scn.expect.clone()) else { return v };
        if e.prefix_values.len() != e.steps.len() {
            return v; // reference incomplete (reported by prepare)
        }
        // walk the executed script, tracking which step boundary each accepted line ends at
        let mut k_next = 0usize; // index of the next step to be consumed
        let mut any_nil_before = false;
        let mut frozen: Option<(usize, Vec<(String, String, String)>)> = None;
        let mut prev_line_fallible = false;
        let mut line_start_of: std::collections::BTreeMap<usize, usize> = std::collections::BTreeMap::new();
        for (op, out) in r.ops.iter().zip(r.outs.iter()) {
            match op {
                ClientOp::Line { session: 0, src } => {
                    if e.rejected.contains(src) {
                        match out {
                            Out::ParseError | Out::CompileError(_) => {}
                            other => v.push(Violation::new("C11", "rejected-line", "was-not-rejected", format!("line `{src}` should be rejected but gave {:?}", other), r.steps)),
                        }
                        continue;
                    }
                    // which steps does this line hold?
                    let start = k_next;
                    let mut joined = Vec::new();
                    let mut k = k_next;
                    while k < e.steps.len() {
                        joined.push(e.steps[k].src.clone());
                        k += 1;
                        if joined.join(", ") == *src {
                            break;
                        }
                    }
                    if joined.join(", ") != *src {
                        v.push(Violation::new("HARNESS", "judge", "line-mapping", format!("cannot map line `{src}` to steps from {start}"), r.steps));
                        return v;
                    }
                    k_next = k;
                    let end = k - 1;
                    let only_aliases = e.steps[start..=end].iter().all(|s| s.alias);
                    if only_aliases {
                        if !matches!(out, Out::NoCode) {
                            v.push(Violation::new("C11", "line-value", "alias-only-line", format!("alias-only line `{src}` gave {:?}", out), r.steps));
                        }
                        continue;
                    }
                    if any_nil_before {
                        // the one-shot program short-circuited earlier: the property is silent
                        if matches!(out, Out::RuntimeError(_)) {
                            // ... and the client starts a fresh session after a runtime error
                            frozen = None;
                        }
                        continue;
                    }
                    let expected = &e.prefix_values[end];
                    if out != expected {
                        // does this line use, at its narrowed type, a variable that an EARLIER line narrowed?
                        let narrowing_lost = matches!(out, Out::CompileError(m) if m.contains("TypeMismatch"))
                            && e.steps[start..=end].iter().any(|s| s.needs_narrowed.as_ref().is_some_and(|u| e.steps[..start].iter().any(|t| t.narrows.as_ref() == Some(u)) && !e.steps[start..=end].iter().any(|t| t.narrows.as_ref() == Some(u))));
                        // does it use the flowing value right after a line holding a fallible pattern step
                        // (whose result type therefore includes nil)?
                        let flow_maybe_nil = matches!(out, Out::CompileError(m) if m.contains("TypeMismatch")) && prev_line_fallible && e.steps[start..=end].iter().find(|s| !s.alias).is_some_and(|s| s.src.starts_with("[~"));
                        // does it use the flowing value right after a line that ended with a call of a
                        // dispatch function defined on an earlier line than that call?
                        let dispatch_lost = matches!(out, Out::CompileError(m) if m.contains("TypeMismatch"))
                            && (start..=end).any(|k| {
                                if e.steps[k].alias || !e.steps[k].src.starts_with("[~") {
                                    return false;
                                }
                                // the code step whose value flows into step k
                                let Some(p) = (0..k).rev().find(|p| !e.steps[*p].alias) else { return false };
                                let Some(f) = e.steps[p].dispatch_call.as_ref() else { return false };
                                let Some(d) = e.steps.iter().position(|t| t.dispatch_def.as_ref() == Some(f)) else { return false };
                                // the line the call sits on: this one, or an earlier accepted one
                                let call_line_start = if p >= start { start } else { line_start_of.get(&p).copied().unwrap_or(0) };
                                d < call_line_start
                            });
                        let cause = match (out, expected) {
                            (Out::Value(_), Out::Value(_)) => "different-value",
                            (Out::CompileError(_), _) if narrowing_lost => "narrowing-not-carried-across-lines",
                            (Out::CompileError(_), _) if dispatch_lost => "dispatch-specialisation-not-carried-across-lines",
                            (Out::CompileError(_), _) if flow_maybe_nil => "flow-typed-maybe-nil-after-fallible-line",
                            (Out::CompileError(_) | Out::ParseError, _) => "accepted-program-rejected-linewise",
                            (Out::RuntimeError(_), Out::Value(_)) => "runtime-error-linewise",
                            (Out::Value(_), Out::RuntimeError(_)) => "no-runtime-error-linewise",
                            _ => "different-outcome",
                        };
                        v.push(Violation::new("C11", "line-value", cause, format!("line `{}` (steps {start}..={end}) gave {:?}; the same steps as one program give {:?}", src.chars().take(160).collect::<String>(), out, expected), r.steps));
                        return v;
                    }
                    prev_line_fallible = e.steps[start..=end].iter().any(|s| s.narrows.is_some());
                    for k in start..=end {
                        line_start_of.insert(k, start);
                    }
                    if matches!(expected, Out::Value(s) if s == "[]") || e.steps[start..=end].iter().any(|s| s.tailcall) {
                        if !any_nil_before {
                            // the step of this line at which the one-program form stops
                            let stop = (start..=end).find(|k| e.steps[*k].tailcall || matches!(&e.prefix_values[*k], Out::Value(s) if s == "[]")).unwrap_or(start);
                            if stop > 0 {
                                frozen = Some((stop, e.prefix_vars[stop - 1].clone()));
                            }
                        }
                        any_nil_before = true;
                    }
                    if matches!(out, Out::RuntimeError(_)) {
                        // the session is reset after a runtime error (as the CLI does)
                        any_nil_before = true;
                        frozen = None;
                    }
                }
                ClientOp::Vars { session: 0 } => {
                    if any_nil_before && let Some((from, frozen)) = &frozen {
                        // after a nil-valued line (or a top-level tail call) the statement is silent about
                        // values of LINES, but every binding made before that line is still in scope and
                        // nothing that ran since has touched it
                        let Out::Vars(got) = out else { continue };
                        for (n, _ty, val) in frozen {
                            if e.steps[*from..k_next].iter().any(|s| rebinds(&s.src, n)) {
                                continue;
                            }
                            match got.iter().find(|t| t.0 == *n) {
                                None => {
                                    v.push(Violation::new("C11", "variables", "lost-after-nil-line", format!("variable {n} (= {val} before step {from}, at which its line evaluated to nil) is no longer listed"), r.steps));
                                    return v;
                                }
                                Some((_, _, gval)) if norm_fn(gval) != norm_fn(val) => {
                                    v.push(Violation::new("C11", "variables", "changed-after-nil-line", format!("variable {n} was {val} before step {from}, at which its line evaluated to nil, and nothing has rebound it since, but the session now reports {gval}"), r.steps));
                                    return v;
                                }
                                _ => {}
                            }
                        }
                        continue;
                    }
                    if any_nil_before || k_next == 0 {
                        continue;
                    }
                    let end = k_next - 1;
                    if matches!(e.prefix_values[end], Out::RuntimeError(_)) {
                        continue;
                    }
                    let Out::Vars(got) = out else { continue };
                    let want = &e.prefix_vars[end];
                    let names = |x: &Vec<(String, String, String)>| {
                        let mut n: Vec<String> = x.iter().map(|t| t.0.clone()).collect();
                        n.sort();
                        n
                    };
                    if names(got) != names(want) {
                        v.push(Violation::new("C11", "variables", "different-names", format!("after step {end} the session has variables {:?}, the one-shot program {:?}", names(got), names(want)), r.steps));
                        return v;
                    }
                    for (n, ty, val) in got {
                        if let Some((_, wty, wval)) = want.iter().find(|t| t.0 == *n) {
                            // process ids differ in placement only through canonical names; functions carry indices
                            let norm = |s: &str| -> String {
                                let mut o = String::new();
                                let mut chars = s.chars().peekable();
                                while let Some(c) = chars.next() {
                                    o.push(c);
                                    if c == 'n' && o.ends_with("#fn") {
                                        while chars.peek().is_some_and(|d| d.is_ascii_digit()) {
                                            chars.next();
                                        }
                                    }
                                }
                                o
                            };
                            if norm(val) != norm(wval) {
                                v.push(Violation::new("C11", "variables", "different-value", format!("after step {end} variable {n} = {val} in the session but {wval} in the one-shot program"), r.steps));
                                return v;
                            }
                            if ty != wty {
                                // a variable bound from the flowing value (`=name`) right after a line whose
                                // result type includes nil inherits that nil: the known flow finding, seen
                                // through the variable's type
                                let flow_bound = e.steps.iter().any(|s| s.src == format!("={n}"));
                                if flow_bound && *ty == format!("{wty} | []") {
                                    v.push(Violation::new("C11", "line-value", "flow-typed-maybe-nil-after-fallible-line", format!("after step {end} variable {n}, bound from the flowing value, has type {ty} in the session but {wty} in the one-shot program"), r.steps));
                                    return v;
                                }
                                v.push(Violation::new("C11", "variables", "different-type", format!("after step {end} variable {n} : {ty} in the session but {wty} in the one-shot program"), r.steps));
                                return v;
                            }
                        }
                    }
                }
                _ => {}
            }
        }
        v
    }
}

/// does the step `src` bind `name` anew (`name = ..`, `[.., name, ..] = ..`, `(.., name, ..) = ..`)?
fn rebinds(src: &str, name: &str) -> bool {
    if src.starts_with(&format!("{name} = ")) {
        return true;
    }
    for (open, close) in [('[', "] = "), ('(', ") = ")] {
        if src.starts_with(open)
            && let Some(p) = src.find(close)
            && mentions(&src[..p], name)
        {
            return true;
        }
    }
    false
}

/// does `src` mention the identifier `name` as a whole word?
fn mentions(src: &str, name: &str) -> bool {
    let b = src.as_bytes();
    let mut from = 0;
    while let Some(pos) = src[from..].find(name) {
        let i = from + pos;
        let before_ok = i == 0 || !(b[i - 1].is_ascii_alphanumeric() || b[i - 1] == b'_');
        let j = i + name.len();
        let after_ok = j >= b.len() || !(b[j].is_ascii_alphanumeric() || b[j] == b'_');
        if before_ok && after_ok {
            return true;
        }
        from = i + 1;
    }
    false
}

/// function values render with their table index, which differs between a session and a one-shot program
fn norm_fn(s: &str) -> String {
    let mut o = String::new();
    let mut chars = s.chars().peekable();
    while let Some(c) = chars.next() {
        o.push(c);
        if c == 'n' && o.ends_with("#fn") {
            while chars.peek().is_some_and(|d| d.is_ascii_digit()) {
                chars.next();
            }
        }
    }
    o
}
