//! Property framework: scenario -> reference run + schedule/configuration variants -> oracles;
//! minimisation and replay files.

use crate::backend::FaultKind;
use crate::client::ClientOp;
use crate::rng::{Rng, mix};
use crate::run::{EndState, Monitor, RunResult, RunSpec, Violation, execute_isolated};
use crate::sched::SchedSpec;
use crate::world::{ALL, Decision, RunCfg};
use serde::{Deserialize, Serialize};
use std::collections::BTreeMap;

pub mod c03;
pub mod c04;
pub mod c05;
pub mod c06;
pub mod c10;
pub mod c11;
pub mod c13;
pub mod c14;
pub mod c15;

#[derive(Clone, Copy, Debug, PartialEq, Serialize, Deserialize)]
pub enum Tier {
    Quick,
    Thorough,
}

#[derive(Clone, Debug, Serialize, Deserialize)]
pub struct Scenario {
    pub family: String,
    pub ops: Vec<ClientOp>,
    pub modules: Vec<(Vec<String>, String)>,
    pub files: BTreeMap<String, Vec<u8>>,
    /// scenario contains timeouts: explore the clock
    pub timing: bool,
    /// uses the effect backend: explore backend faults / completion order
    pub io: bool,
    /// backend faults that are part of the scenario itself (applied to every run, reference included)
    #[serde(default)]
    pub fixed_faults: BTreeMap<u64, FaultKind>,
    /// property-specific expectation data (the host-side model's verdicts)
    pub expect: serde_json::Value,
    /// a hash of the scenario's shape (family + structure, not constants)
    pub shape: u64,
    /// estimated number of decisions of a fault-free run (set after the reference run)
    pub est_len: u64,
    /// lower bound on the time slice (for scenarios with very long loops); 0 = none
    #[serde(default)]
    pub min_quantum: usize,
}

#[derive(Clone, Debug, Serialize, Deserialize)]
pub struct RefData {
    pub outs: Vec<crate::client::Out>,
    pub procs: BTreeMap<String, String>,
    pub steps: u64,
}

pub trait Property: Sync {
    fn id(&self) -> &'static str;
    fn cases(&self, tier: Tier) -> usize;
    fn variants(&self, tier: Tier) -> usize;
    fn generate(&self, rng: &mut Rng, tier: Tier) -> Scenario;
    fn monitor(&self, scn: &Scenario) -> Box<dyn Monitor + Send>;
    /// Judge one finished run (reference or variant). `refdata` is None for the reference run.
    fn judge(&self, scn: &Scenario, refdata: Option<&RefData>, r: &RunResult) -> Vec<Violation>;
    /// Whether this property wants a reference run at all.
    fn wants_reference(&self) -> bool {
        true
    }
    /// Compute expectation data that needs executions (e.g. one-shot reference programs).
    /// Returns violations found while doing so (reported against the prepared scenario).
    fn prepare(&self, _scn: &mut Scenario, _case_seed: u64) -> Vec<(Violation, RunSpec, RunResult)> {
        Vec::new()
    }
    /// Variant-specific client script (default: the scenario's own).
    fn variant_ops(&self, _scn: &Scenario, _rng: &mut Rng) -> Option<Vec<ClientOp>> {
        None
    }
    fn draw_cfg(&self, rng: &mut Rng, scn: &Scenario) -> RunCfg {
        default_cfg(rng, scn)
    }
    fn max_workers(&self) -> usize {
        6
    }
    /// Pinned scenarios that reproduce listed known findings (printed as KNOWN-FINDING lines).
    fn pinned(&self) -> Vec<Pinned> {
        Vec::new()
    }
    /// probe counters that must be non-zero over a whole tier (else the check is blind there)
    fn required_probes(&self) -> Vec<&'static str> {
        Vec::new()
    }
    fn rule_text(&self) -> &'static str;
    /// scenarios of this property deliberately contain lines the parser/compiler rejects
    fn allows_rejected_lines(&self) -> bool {
        false
    }
    /// A hang that the property's statement is silent about (default: every hang counts).
    fn excuses_hang(&self, _scn: &Scenario, _r: &RunResult) -> bool {
        false
    }
    /// probe counters derived from a finished, judged run
    fn run_probes(&self, _scn: &Scenario, _r: &RunResult) -> BTreeMap<String, u64> {
        BTreeMap::new()
    }
    fn real_vs_stub(&self) -> Vec<&'static str> {
        vec![
            "real: quiver-core Executor/Process/builtins/compatibility/optimisation/serde",
            "real: quiver-environment Worker/Environment/Repl/messages",
            "real: quiver-compiler parser/compiler/module import (every workload is compiled from source text)",
            "real: quiver-io file, directory, stat, DNS and TCP builtins (argument decoding -> NativeEffect requests) and NativeEffect::resource_id",
            "stub: quiver-io NativeEffectBackend (io_uring, real files/sockets/DNS) -> SimBackend: in-memory files (plus a virtual 16 MiB + 4 KiB file), directory iterators and stat with result type ids pushed by the environment, a fixed-address DNS resolver iterator, loopback TCP (pending accept/read completed by another process's connect/write/close); scheduler-released async completions, injected submit/completion errors and short I/O on files, refused connects, failing accepts, socket errors and short socket I/O on the loopback TCP; the native read-buffer allocation is modelled",
            "stub: quiver-cli native_transport (mpsc+threads) -> SimTransport + seeded scheduler (reliable per-channel FIFO, prefix visibility)",
            "stub: quiver-web pump/worker_entry/repl glue -> event-driven drive mode + serde-JSON round trip of every Command/Event; run configurations io_signatures_only (its worker's builtin registry) and keep_session_after_error (its REPL glue) used by C15",
            "stub: quiver-cli main.rs/repl_cli.rs glue -> harness client state machine (compile, extract entry, start/resume, request, poll; lines entered without waiting for the previous one; a module edited and reloaded; observer requests - statuses, infos, results of running processes - issued at moments the scheduler picks)",
            "simulated: clock (virtual ms, per-worker offsets, backward wall-clock steps), OS scheduling, HashMap seeds (getrandom interposer)",
        ]
    }
}

pub struct Pinned {
    pub key: &'static str,
    pub what: &'static str,
    pub scenario: Scenario,
    pub spec: RunSpec,
}

pub fn default_cfg(rng: &mut Rng, scn: &Scenario) -> RunCfg {
    let nworkers = *rng.pick(&[1usize, 2, 2, 2, 3, 3, 4, 5, 6]);
    let mut faults = BTreeMap::new();
    if scn.io && rng.chance(1, 2) {
        let n = 1 + rng.usize(2);
        for _ in 0..n {
            let ord = rng.below(12);
            let kind = *rng.pick(&[FaultKind::SubmitError, FaultKind::CompleteError, FaultKind::Short]);
            faults.insert(ord, kind);
        }
    }
    let offsets: Vec<i64> = (0..nworkers).map(|_| if scn.timing && rng.chance(1, 3) { rng.below(5000) as i64 - 2500 } else { 0 }).collect();
    RunCfg {
        nworkers,
        json: rng.chance(1, 4),
        event_driven: rng.chance(1, 3),
        sync_io: rng.chance(1, 5),
        clock_start: 1_000_000,
        clock_offsets: offsets,
        faults,
        files: scn.files.clone(),
        max_steps: 60_000,
        flush_subscriptions: rng.chance(1, 6),
        io_signatures_only: false,
        keep_session_after_error: false,
        no_effect_backend: false,
    }
}

pub fn reference_spec(scn: &Scenario, seed: u64) -> RunSpec {
    let mut cfg = RunCfg::reference();
    cfg.files = scn.files.clone();
    cfg.faults = scn.fixed_faults.clone();
    // (a property of the scenario, not of the sampled configuration: which host the program runs in)
    cfg.io_signatures_only = scn.family == "c15-HostlessIo";
    cfg.keep_session_after_error = scn.family == "c15-repl-kept-session";
    cfg.no_effect_backend = scn.family == "c15-NoBackendIo";
    RunSpec { cfg, ops: scn.ops.clone(), modules: scn.modules.clone(), sched: SchedSpec::fair(), seed, replay: None, est_len: 100, tail_bound: 0, tail_from: None }
}

#[derive(Clone, Debug, Serialize, Deserialize)]
pub struct ReplayFile {
    pub property: String,
    pub rule: String,
    pub key: String,
    pub detail: String,
    pub case_seed: u64,
    pub scenario: Scenario,
    pub refdata: Option<RefData>,
    pub spec: RunSpec,
    pub log_hash: u64,
    pub minimised_from: usize,
    pub source: Vec<String>,
    pub log_tail: Vec<String>,
}

#[derive(Clone, Debug, Default, Serialize, Deserialize)]
pub struct CaseReport {
    pub case: u64,
    pub runs: u64,
    pub inconclusive: u64,
    pub sim_ms: u64,
    pub steps: u64,
    pub msgs: u64,
    /// hashes of (scenario shape, interleaving) for non-trivial runs
    pub nontrivial: Vec<u64>,
    pub counts: BTreeMap<String, u64>,
    pub probes: BTreeMap<String, u64>,
    pub violations: Vec<FoundViolation>,
    pub sample: Option<serde_json::Value>,
    pub families: BTreeMap<String, u64>,
    #[serde(default)]
    pub known_hits: BTreeMap<String, u64>,
    /// event-log hash of every run of the case, in execution order (determinism self-test)
    #[serde(default)]
    pub run_hashes: Vec<u64>,
}

#[derive(Clone, Debug, Serialize, Deserialize)]
pub struct FoundViolation {
    pub prop: String,
    pub key: String,
    pub rule: String,
    pub detail: String,
    pub replay: String,
}

pub fn all_violations(prop: &dyn Property, scn: &Scenario, refdata: Option<&RefData>, r: &RunResult) -> Vec<Violation> {
    let mut v = r.violations.clone();
    let id = prop.id();
    match r.end {
        EndState::Dead => {
            let f = r.failure.clone().unwrap_or_default();
            let cause = if f.contains("panicked") { "panic" } else { "internal-error" };
            v.push(Violation::new(id, "worker-or-env-crash", cause, f, r.steps));
        }
        EndState::Hang if prop.excuses_hang(scn, r) => {}
        EndState::Hang => v.push(Violation::new(id, "hang", "quiescent-without-result", format!("system quiescent after {} decisions but the client is still waiting (op {})", r.steps, r.outs.len()), r.steps)),
        EndState::TailBound => v.push(Violation::new(id, "liveness", "fair-tail-bound-exceeded", format!("fair fault-free tail ran {} decisions without completing", r.tail_steps), r.steps)),
        _ => {}
    }
    if !prop.allows_rejected_lines()
        && let Some(bad) = r.outs.iter().find(|o| matches!(o, crate::client::Out::CompileError(_) | crate::client::Out::ParseError))
    {
        // a generator bug, not a property violation: reported as a harness error (exit 2)
        return vec![Violation::new("HARNESS", "scenario-rejected", "generator-bug", format!("generated scenario was rejected by the front end: {:?}", bad), r.steps)];
    }
    if matches!(r.end, EndState::Completed) {
        v.extend(prop.judge(scn, refdata, r));
    }
    // the answers to result requests issued mid-run are judged under C03 only ("the same result and
    // the same per-process results ... no schedule makes such a program hang": a request that is
    // never answered, or answered with something else, is how a host observes exactly that); the other
    // properties' statements do not speak of result requests, there the requests are traffic only
    if id != "C03" {
        v.retain(|x| !(x.prop == "ANY" && x.rule == "result-request"));
    }
    // attribute generic violations to this property
    for x in v.iter_mut() {
        if x.prop == "ANY" {
            x.prop = id.to_string();
            x.key = x.key.replacen("ANY", id, 1);
        }
    }
    v
}

pub fn run_spec(prop: &dyn Property, scn: &Scenario, spec: RunSpec, keep_log: bool) -> RunResult {
    let mon = prop.monitor(scn);
    let seed = spec.seed;
    let (r, _) = execute_isolated(spec, MonBox(mon), keep_log, seed);
    r
}

pub struct MonBox(pub Box<dyn Monitor + Send>);
impl Monitor for MonBox {
    fn after(&mut self, w: &crate::world::World, c: &crate::client::Client, d: &Decision, o: &crate::world::StepOutcome) -> Option<Violation> {
        self.0.after(w, c, d, o)
    }
    fn at_end(&mut self, w: &crate::world::World, c: &crate::client::Client, e: &EndState) -> Vec<Violation> {
        self.0.at_end(w, c, e)
    }
    fn probes(&self) -> BTreeMap<String, u64> {
        self.0.probes()
    }
}

fn absorb(rep: &mut CaseReport, scn: &Scenario, r: &RunResult, nworkers: usize) {
    rep.runs += 1;
    rep.run_hashes.push(mix(&[r.log_hash, r.interleaving_hash, r.steps]));
    rep.sim_ms += r.sim_ms;
    rep.steps += r.steps;
    rep.msgs += r.msgs;
    if matches!(r.end, EndState::StepCap) {
        rep.inconclusive += 1;
    }
    for (k, v) in &r.counts {
        *rep.counts.entry(k.clone()).or_insert(0) += v;
    }
    for (k, v) in &r.probes {
        *rep.probes.entry(k.clone()).or_insert(0) += v;
    }
    let faults: u64 = r.counts.iter().filter(|(k, _)| k.starts_with("fault_") || k.as_str() == "clock_step_back" || k.as_str() == "backend_reordered").map(|(_, v)| *v).sum();
    let conclusive = !matches!(r.end, EndState::StepCap);
    if nworkers >= 2 && conclusive && (r.out_of_order_handled > 0 || faults > 0) {
        rep.nontrivial.push(mix(&[scn.shape, r.interleaving_hash]));
    }
}

/// One case: generate a scenario, run the reference and the variants, judge, minimise.
pub fn run_case(prop: &dyn Property, base_seed: u64, case: u64, tier: Tier, replay_dir: &str, known: &[String]) -> CaseReport {
    let case_seed = mix(&[base_seed, fxhash(prop.id()), case]);
    let mut rng = Rng::new(case_seed);
    let mut scn = prop.generate(&mut rng, tier);
    let mut rep = CaseReport { case, ..Default::default() };
    *rep.families.entry(scn.family.clone()).or_insert(0) += 1;

    for (v, spec, r) in prop.prepare(&mut scn, case_seed) {
        rep.runs += 1;
        let vs = split_known(vec![v], known, &mut rep, prop, &scn, None, &spec, &r, case_seed, replay_dir);
        if let Some(v) = vs.first() {
            let path = report(prop, &scn, None, &spec, &r, v, case_seed, replay_dir);
            rep.violations.push(FoundViolation { prop: v.prop.clone(), key: v.key.clone(), rule: v.rule.clone(), detail: v.detail.clone(), replay: path });
            return rep;
        }
    }
    let mut refdata = None;
    if prop.wants_reference() {
        let spec = reference_spec(&scn, case_seed);
        let r = run_spec(prop, &scn, spec.clone(), false);
        absorb(&mut rep, &scn, &r, 1);
        let vs = split_known(all_violations(prop, &scn, None, &r), known, &mut rep, prop, &scn, None, &spec, &r, case_seed, replay_dir);
        scn.est_len = r.steps.max(10);
        if let Some(v) = vs.first() {
            let path = report(prop, &scn, None, &spec, &r, v, case_seed, replay_dir);
            rep.violations.push(FoundViolation { prop: v.prop.clone(), key: v.key.clone(), rule: v.rule.clone(), detail: v.detail.clone(), replay: path });
            return rep;
        }
        if !matches!(r.end, EndState::Completed) {
            // reference inconclusive (step cap): skip the case
            return rep;
        }
        refdata = Some(RefData { outs: r.outs.clone(), procs: r.procs.clone(), steps: r.steps });
    } else {
        scn.est_len = scn.est_len.max(50);
    }
    if case % 97 == 0 || rep.sample.is_none() && case < 2 {
        let mut vr = Rng::new(case_seed ^ 0x5a);
        let ops = prop.variant_ops(&scn, &mut vr).unwrap_or_else(|| scn.ops.clone());
        let expect_s = scn.expect.to_string();
        rep.sample = Some(serde_json::json!({
            "family": scn.family,
            "script": ops.iter().map(op_source).collect::<Vec<_>>(),
            "expect": if expect_s.len() > 1200 { serde_json::Value::String(format!("{}…", expect_s.chars().take(1200).collect::<String>())) } else { scn.expect.clone() },
            "reference_outs": refdata.as_ref().map(|r| format!("{:?}", r.outs)),
        }));
    }

    let nvar = prop.variants(tier);
    for v in 0..nvar {
        let vseed = mix(&[case_seed, 0x5eed, v as u64]);
        let mut vr = Rng::new(vseed);
        let mut cfg = prop.draw_cfg(&mut vr, &scn);
        cfg.nworkers = cfg.nworkers.min(prop.max_workers());
        if !scn.fixed_faults.is_empty() {
            cfg.faults = scn.fixed_faults.clone();
        }
        cfg.clock_offsets.truncate(cfg.nworkers);
        let mut sched = SchedSpec::draw(&mut vr, cfg.nworkers, scn.timing, scn.est_len);
        if scn.min_quantum > 0 {
            sched.quantum = match sched.quantum {
                crate::sched::Quantum::Fixed(q) => crate::sched::Quantum::Fixed(q.max(scn.min_quantum)),
                crate::sched::Quantum::PerTurn => crate::sched::Quantum::Fixed(scn.min_quantum),
            };
        }
        let tail_bound = 50 * scn.est_len * (cfg.nworkers as u64 + 3) + 2000;
        cfg.max_steps = cfg.max_steps.max(sched.fault_stop + tail_bound + 1000);
        let nworkers = cfg.nworkers;
        let ops = prop.variant_ops(&scn, &mut vr).unwrap_or_else(|| scn.ops.clone());
        let spec = RunSpec { cfg, ops, modules: scn.modules.clone(), sched, seed: vseed, replay: None, est_len: scn.est_len, tail_bound, tail_from: None };
        let r = run_spec(prop, &scn, spec.clone(), false);
        absorb(&mut rep, &scn, &r, nworkers);
        for (k, n) in prop.run_probes(&scn, &r) {
            *rep.probes.entry(k).or_insert(0) += n;
        }
        let vs = split_known(all_violations(prop, &scn, refdata.as_ref(), &r), known, &mut rep, prop, &scn, refdata.as_ref(), &spec, &r, case_seed, replay_dir);
        if let Some(viol) = vs.first() {
            let (mspec, mres, mviol) = minimise(prop, &scn, refdata.as_ref(), &spec, &r, viol);
            let mut path = report(prop, &scn, refdata.as_ref(), &mspec, &mres, &mviol, case_seed, replay_dir);
            // the file must reproduce in a fresh run before it is reported
            if !verify_replay_file(prop, &path) {
                if std::env::var("QSIM_DEBUG").is_ok() {
                    eprintln!("minimised result: end={:?} steps={} ndec={} tail_steps={} hash={:x} replay_len={:?} tail_from={:?} ed={} nw={} same_list={}", mres.end, mres.steps, mres.decisions.len(), mres.tail_steps, mres.log_hash, mspec.replay.as_ref().map(|r| r.len()), mspec.tail_from, mspec.cfg.event_driven, mspec.cfg.nworkers, mspec.replay.as_ref() == Some(&mres.decisions));
                    for _ in 0..2 {
                        let r2 = run_spec(prop, &scn, mspec.clone(), false);
                        eprintln!("  rerun: end={:?} steps={} hash={:x} tail_steps={}", r2.end, r2.steps, r2.log_hash, r2.tail_steps);
                    }
                }
                path = format!("{path} (WARNING: replay did not reproduce)");
            }
            rep.violations.push(FoundViolation { prop: mviol.prop.clone(), key: mviol.key.clone(), rule: mviol.rule.clone(), detail: mviol.detail.clone(), replay: path });
            // one violation per case is enough; other cases continue
            break;
        }
    }
    rep
}

/// Separate violations whose key is a listed known finding: they are recorded (with one
/// un-minimised replay file per key and process) but do not end the exploration of the case.
#[allow(clippy::too_many_arguments)]
fn split_known(vs: Vec<Violation>, known: &[String], rep: &mut CaseReport, prop: &dyn Property, scn: &Scenario, refdata: Option<&RefData>, spec: &RunSpec, r: &RunResult, case_seed: u64, replay_dir: &str) -> Vec<Violation> {
    use std::sync::Mutex;
    static WRITTEN: Mutex<Vec<String>> = Mutex::new(Vec::new());
    let mut rest = Vec::new();
    for v in vs {
        if known.contains(&v.key) {
            *rep.known_hits.entry(v.key.clone()).or_insert(0) += 1;
            let mut w = WRITTEN.lock().unwrap();
            if !w.contains(&v.key) {
                w.push(v.key.clone());
                drop(w);
                let path = report(prop, scn, refdata, spec, r, &v, case_seed, replay_dir);
                rep.violations.push(FoundViolation { prop: v.prop.clone(), key: v.key.clone(), rule: v.rule.clone(), detail: v.detail.clone(), replay: path });
            }
        } else {
            rest.push(v);
        }
    }
    rest
}

pub fn op_source(op: &ClientOp) -> String {
    match op {
        ClientOp::Line { session, src } => format!("repl[{session}]> {src}"),
        ClientOp::Run { src, shake, json, wait } => format!("run(shake={shake},json={json},wait={wait})> {src}"),
        ClientOp::Vars { session } => format!("vars[{session}]"),
        ClientOp::Noise(n) => format!("noise {:?}", n),
        ClientOp::WaitRun { nth } => format!("wait for run #{nth}"),
        ClientOp::Reload { session, path, src } => format!("repl[{session}] edit module %{} := {src} ; reload", path.join(".")),
    }
}

pub fn fxhash(s: &str) -> u64 {
    let mut h = crate::rng::Fnv::default();
    h.str(s);
    h.0
}

fn same_key(vs: &[Violation], key: &str) -> Option<Violation> {
    vs.iter().find(|v| v.key == key).cloned()
}

/// Shrink the failing run while the same classification key persists.
pub fn minimise(prop: &dyn Property, scn: &Scenario, refdata: Option<&RefData>, spec: &RunSpec, res: &RunResult, viol: &Violation) -> (RunSpec, RunResult, Violation) {
    let key = viol.key.clone();
    let mut best = spec.clone();
    best.replay = Some(res.decisions.clone());
    best.tail_from = res.tail_from;
    best.tail_bound = spec.tail_bound;
    let mut best_res = res.clone();
    let mut best_viol = viol.clone();
    let mut budget = 400i32;
    // the attempts are also bounded by the simulated steps they execute (a deterministic measure):
    // a runaway program makes every attempt run to the step cap, and 400 of those take an hour
    let step_budget = std::cell::Cell::new(400_000i64);
    // and a key already minimised twice by this process gets only the sanity replay: the later
    // replay files of that key stay exact, just longer
    static SEEN: std::sync::Mutex<Option<BTreeMap<String, u32>>> = std::sync::Mutex::new(None);
    {
        let mut g = SEEN.lock().unwrap();
        let n = g.get_or_insert_with(BTreeMap::new).entry(key.clone()).or_insert(0);
        *n += 1;
        if *n > 2 {
            budget = 1;
        }
    }

    let mut attempt = |cand: &RunSpec, budget: &mut i32| -> Option<(RunResult, Violation)> {
        if *budget <= 0 || step_budget.get() <= 0 {
            *budget = 0;
            return None;
        }
        *budget -= 1;
        let t0 = std::time::Instant::now();
        let r = run_spec(prop, scn, cand.clone(), false);
        step_budget.set(step_budget.get() - r.steps as i64);
        if std::env::var("QSIM_DEBUG_MIN").is_ok() {
            eprintln!("minimise attempt: {} steps, {:?}, end {:?}, left {} / {}", r.steps, t0.elapsed(), r.end, budget, step_budget.get());
        }
        let vs = all_violations(prop, scn, refdata, &r);
        same_key(&vs, &key).map(|v| (r, v))
    };

    // sanity: the explicit list reproduces
    match attempt(&best, &mut budget) {
        Some((r, v)) => {
            best_res = r;
            best_viol = v;
        }
        None => return (best, best_res, best_viol),
    }
    // truncate after the violating step: decisions beyond the run's end are irrelevant
    // 1. ddmin over the decision list
    let mut n = 2usize;
    loop {
        let list = best.replay.clone().unwrap();
        if list.len() <= 1 || budget <= 0 {
            break;
        }
        let chunk = list.len().div_ceil(n);
        let mut reduced = false;
        let mut start = 0;
        while start < list.len() {
            let end = (start + chunk).min(list.len());
            let mut cand_list = list[..start].to_vec();
            cand_list.extend_from_slice(&list[end..]);
            let mut cand = best.clone();
            cand.replay = Some(cand_list);
            if let Some((r, v)) = attempt(&cand, &mut budget) {
                // keep only the decisions actually used
                cand.replay = Some(r.decisions.iter().take(cand.replay.as_ref().unwrap().len()).cloned().collect());
                best = cand;
                best_res = r;
                best_viol = v;
                reduced = true;
                break;
            }
            start = end;
        }
        if reduced {
            n = (n.saturating_sub(1)).max(2);
        } else {
            if chunk <= 1 {
                break;
            }
            n = (n * 2).min(list.len());
        }
    }
    // 2. configuration simplifications
    let mut try_cfg = |f: &dyn Fn(&mut RunSpec), best: &mut RunSpec, best_res: &mut RunResult, best_viol: &mut Violation, budget: &mut i32| {
        let mut cand = best.clone();
        f(&mut cand);
        if let Some((r, v)) = attempt(&cand, budget) {
            *best = cand;
            *best_res = r;
            *best_viol = v;
        }
    };
    try_cfg(&|s| s.cfg.json = false, &mut best, &mut best_res, &mut best_viol, &mut budget);
    try_cfg(&|s| s.cfg.flush_subscriptions = false, &mut best, &mut best_res, &mut best_viol, &mut budget);
    try_cfg(&|s| s.cfg.event_driven = false, &mut best, &mut best_res, &mut best_viol, &mut budget);
    try_cfg(&|s| s.cfg.clock_offsets.iter_mut().for_each(|o| *o = 0), &mut best, &mut best_res, &mut best_viol, &mut budget);
    try_cfg(&|s| s.cfg.faults.clear(), &mut best, &mut best_res, &mut best_viol, &mut budget);
    while best.cfg.nworkers > 1 && budget > 0 {
        let mut cand = best.clone();
        cand.cfg.nworkers -= 1;
        cand.cfg.clock_offsets.truncate(cand.cfg.nworkers);
        match attempt(&cand, &mut budget) {
            Some((r, v)) => {
                best = cand;
                best_res = r;
                best_viol = v;
            }
            None => break,
        }
    }
    // 3. simplify individual decisions (everything visible, production quantum)
    let mut cand = best.clone();
    if let Some(list) = cand.replay.as_mut() {
        for d in list.iter_mut() {
            match d {
                Decision::W { take, .. } => *take = ALL,
                Decision::E { take } => take.clear(),
                _ => {}
            }
        }
    }
    if let Some((r, v)) = attempt(&cand, &mut budget) {
        best = cand;
        best_res = r;
        best_viol = v;
    }
    let mut cand = best.clone();
    if let Some(list) = cand.replay.as_mut() {
        for d in list.iter_mut() {
            if let Decision::W { q, .. } = d {
                *q = 1000;
            }
        }
    }
    if let Some((r, v)) = attempt(&cand, &mut budget) {
        best = cand;
        best_res = r;
        best_viol = v;
    }
    // final: trim to decisions actually executed and re-run with a log
    let mut fin = best.clone();
    fin.replay = Some(best_res.decisions.clone());
    fin.tail_from = best_res.tail_from;
    if let Some((r, v)) = attempt(&fin, &mut { 1 }) {
        best = fin;
        best_res = r;
        best_viol = v;
    }
    (best, best_res, best_viol)
}

pub fn report(prop: &dyn Property, scn: &Scenario, refdata: Option<&RefData>, spec: &RunSpec, res: &RunResult, viol: &Violation, case_seed: u64, replay_dir: &str) -> String {
    // re-run with logging to capture the tail of the event log
    let mut spec2 = spec.clone();
    if spec2.replay.is_none() {
        spec2.replay = Some(res.decisions.clone());
        spec2.tail_from = res.tail_from;
    }
    let logged = run_spec(prop, scn, spec2.clone(), true);
    let log = logged.log.clone().unwrap_or_default();
    let tail: Vec<String> = log.iter().rev().take(200).rev().cloned().collect();
    let file = ReplayFile {
        property: prop.id().to_string(),
        rule: viol.rule.clone(),
        key: viol.key.clone(),
        detail: viol.detail.clone(),
        case_seed,
        scenario: scn.clone(),
        refdata: refdata.cloned(),
        spec: spec2,
        log_hash: logged.log_hash,
        minimised_from: res.decisions.len(),
        source: spec.ops.iter().map(op_source).collect(),
        log_tail: tail,
    };
    let _ = std::fs::create_dir_all(replay_dir);
    let name = format!("{}/{}-{:016x}-{}.json", replay_dir, prop.id(), case_seed, sanitize(&viol.key));
    let tmp = format!("{name}.tmp");
    std::fs::write(&tmp, serde_json::to_string_pretty(&file).unwrap()).expect("write replay file");
    std::fs::rename(&tmp, &name).expect("rename replay file");
    name
}

fn sanitize(s: &str) -> String {
    s.chars().map(|c| if c.is_ascii_alphanumeric() || c == '-' { c } else { '_' }).collect()
}

pub struct ReplayOutcome {
    pub reproduced: bool,
    pub same_hash: bool,
    pub found: Vec<Violation>,
    pub result: RunResult,
}

pub fn replay_file(prop: &dyn Property, file: &ReplayFile, keep_log: bool) -> ReplayOutcome {
    let r = run_spec(prop, &file.scenario, file.spec.clone(), keep_log);
    let vs = all_violations(prop, &file.scenario, file.refdata.as_ref(), &r);
    let reproduced = vs.iter().any(|v| v.key == file.key);
    ReplayOutcome { reproduced, same_hash: r.log_hash == file.log_hash, found: vs, result: r }
}

fn verify_replay_file(prop: &dyn Property, path: &str) -> bool {
    let Ok(s) = std::fs::read_to_string(path) else { return false };
    let Ok(f) = serde_json::from_str::<ReplayFile>(&s) else { return false };
    let o = replay_file(prop, &f, false);
    o.reproduced && o.same_hash
}

pub fn lookup(id: &str) -> Option<Box<dyn Property>> {
    match id {
        "C03" => Some(Box::new(c03::C03)),
        "C04" => Some(Box::new(c04::C04)),
        "C05" => Some(Box::new(c05::C05)),
        "C06" => Some(Box::new(c06::C06)),
        "C10" => Some(Box::new(c10::C10)),
        "C11" => Some(Box::new(c11::C11)),
        "C13" => Some(Box::new(c13::C13)),
        "C14" => Some(Box::new(c14::C14)),
        "C15" => Some(Box::new(c15::C15)),
        _ => None,
    }
}
