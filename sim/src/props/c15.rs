//! C15 — failures are contained and propagate only to awaiters; workers never crash.
//! The injected fault is a process failure, placed at a generated point of a generated system.

use super::{Property, RefData, Scenario, Tier};
use crate::backend::FaultKind;
use crate::client::{ClientOp, Out};
use crate::rng::Rng;
use crate::run::{Monitor, RunResult, Violation};
use std::collections::BTreeMap;

pub struct C15;

const AW: &str = "aw = #[(@-> 'int), 'int] { =[p, s], w = [s, 0] spin, r = !p, [r, 1] __integer_add__ }";
const BY: &str = "by = #['int, 'int] { =[n, s], w = [s, 0] spin, [n, 5] __integer_add__ }";
const SNDV: &str = "sndv = #[(@'int), 'int, 'int, 'int] { | =[to, base, 0, s] => 0 | =[to, base, k, s] => { base to, w = [s, 0] spin, [&to, [base, 1] __integer_add__, [k, 1] __integer_subtract__, s] ^ } }";
const REL: &str = "rel = #(@-> 'int) { =p, ! [p, #'int] }";
const REL2: &str = "rel2 = #(@-> 'int) { =p, m = [! [p, 0]], f = [\"/rel2\" .0, 577, 420] __file_open__, w = [f, 0, 0x010203] __file_write__, d = [f, 0, 8] __file_read__, e = [f, 0, 8] __file_read__, 1 }";
const REL3: &str = "rel3 = #(@-> 'int) { =p, f = [\"/rel3\" .0, 577, 420] __file_open__, w = [f, 0, 0x010203] __file_write__, m = ! [p, #'int { =q, d = [f, 0, 8] __file_read__, Ok }], 1 }";
/// polls the victim once without blocking, then goes on (and finishes, or waits for a message)
const POLL: &str = "poll = #[(@-> 'int), 'int] { =[p, s], x = [! [p, 0]], w = [s, 0] spin, 1 }";
const POLLW: &str = "pollw = #[(@-> 'int), (@'int)] { =[p, gt], x = [! [p, 0]], 1 gt, g = !'int, [g, 1] __integer_add__ }";
const GATE: &str = "gate = #{ !'int }";
/// a supervisor: one select over the victim and processes that never finish
const SUP: &str = "sup = #[(@-> 'int), (@-> 'int), (@-> 'int), 'int] { =[a, b, c, s], w = [s, 0] spin, ! [a, b, c] }";
const NEVER: &str = "never = #{ !'int }";
/// a supervisor that first polls a slow by-stander with a short timeout - leaving a registration
/// behind if that times out - and then selects over a process that never finishes and the victim
/// an awaiter whose one select lists the victim BEFORE a receive source with a long filter that
/// rejects what it is sent: the failure may be reported while the filter runs
const SELF: &str = "self = #[(@-> 'int), 'int] { =[v, s], ! [v, #'int { =m, w = [s, 0] spin, m =999999 }] }";
const SUP2: &str = "sup2 = #[(@-> 'int), (@-> 'int), (@-> 'int), 'int] { =[slow, nv, v, t], x = [! [slow, t]], ! [nv, v] }";
const SINK: &str = "sink = #{ !#\\File, 5 }";

#[derive(Clone, Copy, Debug, PartialEq)]
enum Fail {
    DivZero,
    ModZero,
    NegBinary,
    SliceOob,
    SqrtNeg,
    OpenMissing,
    /// connecting to a port nobody listens on: an effect error (not a submission error)
    TcpRefused,
    Ownership,
    FilterSpawn,
    FilterSend,
    FilterSelect,
    InjectedWrite(FaultKind),
    /// a pure builtin called outside its domain (index into EDGE_CALLS)
    Edge(usize),
    /// an I/O builtin called in a host that has the builtins but no effect backend
    NoBackendIo,
    /// a read that returns more bytes than a binary may hold
    HugeRead,
    /// an I/O builtin called in a host that registers the I/O builtins for their signature only
    /// (the web worker's registry); index into HOSTLESS_CALLS
    HostlessIo(usize),
}

const HOSTLESS_CALLS: [&str; 5] = [
    "f = [\"/x\" .0, 577, 420] __file_open__, 0",
    "r = \"host\" .0 __dns_resolve__, 0",
    "l = [8080, 16] __tcp_listen__, 0",
    "s = [\"/x\" .0 __filesystem_stat__], 0",
    "d = \"/\" .0 __directory_read__, 0",
];

/// Out-of-domain calls of pure builtins (boundary integers, empty / unaligned / sliced binaries): each
/// must end the calling process with a runtime error, never with a panic of its worker.
/// In-domain (or documented-nil) calls at the edge of the index arithmetic: each must return, not
/// take the worker down (64 bits starting mid-byte span nine bytes; an index of usize::MAX is nil).
const EDGE_TOTAL_CALLS: [&str; 5] = [
    "[0x0000000000000000, 8, 18446744073709551615] __vector_get__",
    "[9 __binary_new__, 0, 7, 1, 63] __binary_set__",
    "[9 __binary_new__, 0, 7, 64] __binary_get__",
    "[[0xff, 9] __binary_repeat__, 0, 1, 64] __binary_get__",
    "[[0xff, 9] __binary_repeat__, 0, 1, 0, 64] __binary_set__",
];

const EDGE_CALLS: [&str; 39] = [
    "[0x00, 2305843009213693952, 0, 8] __binary_get__",
    "[0x00, 9223372036854775807, 0, 8] __binary_get__",
    "[0x00, 2305843009213693951, 7, 64] __binary_get__",
    "[0x00, 2305843009213693952, 0, 1, 8] __binary_set__",
    "[[0x0000, 9223372036854775808] __binary_repeat__, 1] __binary_shift__",
    "[0x0000, 18446744073709551615] __binary_repeat__",
    "[0x0102, 8388609] __binary_repeat__",
    "-65 __binary_new__",
    "18446744073709551616 __binary_new__",
    "[-9223372036854775809, 64] __integer_xor__",
    "[18446744073709551616, -1000000000000000000000000000000] __integer_shift__",
    "-1000000000000000000000000000000 __integer_popcount__",
    "[-1000000000000000000000000000000, 7] __integer_or__",
    "[0x00, 0x, -65] __vector_add__",
    "[[0xab, 5] __binary_repeat__, [0xab, 5] __binary_repeat__, 9223372036854775807] __vector_add__",
    "[0x, 0x0102, 2147483648] __vector_subtract__",
    "[0xff, 0xff, 1000000000000000000000000000000] __vector_multiply__",
    "[0x00, 0x, -9223372036854775808] __vector_less_than__",
    "[3 __binary_new__, 0x00, 9223372036854775808] __vector_equal__",
    "[0x0102, 0x0102030405060708, 16777217] __vector_greater_than__",
    "[0xff, 0x0102, 18446744073709551616] __vector_dot__",
    "[0x, 7, 0x0102] __vector_take__",
    "[0x00, -9223372036854775808, -9223372036854775809] __vector_get__",
    "[0x, 9, -9223372036854775808] __vector_push__",
    "[0x00, 65] __vector_sum__",
    "[0x010203040506070809, -1] __binary_repeat__",
    "[[0x01, 0x02] __binary_concat__, 16777216] __binary_repeat__",
    "[0x010203040506070809, 1000000000000000000000000000000] __binary_repeat__",
    "[[0x010203, 1, 2] __binary_slice__, 64, -9223372036854775808, 9223372036854775807] __binary_get__",
    "[0x00, 0, 9223372036854775807, 1] __binary_get__",
    "[0x00, 8, 0, 0] __binary_get__",
    "[0x010203040506070809, 65, -9223372036854775809, 18446744073709551616, 7] __binary_set__",
    "[0x00, 63, -64, 0, 64] __binary_set__",
    "[[0xab, 5] __binary_repeat__, -9223372036854775809, 9223372036854775808] __binary_slice__",
    "[0x0102, 8, 7] __binary_slice__",
    "[0x0102030405060708, 2147483648, 2147483648] __binary_index__",
    "[[0x01, 0x02] __binary_concat__, 63, -65] __binary_index__",
    "[0x0102030405060708, 65, 9] __binary_append__",
    "[0x00, -1000000000000000000000000000000] __binary_shift__",
];

fn victim_def(f: Fail, spin: u32, receives: bool) -> (String, bool) {
    // returns (definition, io)
    let pre = if receives { "m = !'int, " } else { "" };
    let (op, io) = match f {
        Fail::DivZero => ("[n, 0] __integer_divide__".to_string(), false),
        Fail::ModZero => ("[n, 0] __integer_modulo__".to_string(), false),
        Fail::NegBinary => ("-1 __binary_new__ __binary_length__".to_string(), false),
        Fail::SliceOob => ("[0x0102, 5, 2] __binary_slice__ __binary_length__".to_string(), false),
        Fail::SqrtNeg => ("-4 __integer_sqrt__".to_string(), false),
        Fail::OpenMissing => ("f = [\"/nonexistent\" .0, 0, 0] __file_open__, 0".to_string(), true),
        Fail::TcpRefused => ("s = [0x7f000001, 9] __tcp_connect__, 0".to_string(), true),
        Fail::Ownership => ("s = @sink, f = [\"/own\" .0, 577, 420] __file_open__, f s, d = [f, 0, 4] __file_read__, 0".to_string(), true),
        Fail::InjectedWrite(_) => ("f = [\"/w\" .0, 577, 420] __file_open__, k = [f, 0, 0xaabbcc] __file_write__, f __file_close__, k".to_string(), true),
        Fail::FilterSpawn => ("! [#'int { =q, @#{ 1 }, Ok }]".to_string(), false),
        Fail::FilterSend => ("me = &., ! [#'int { =q, 1 me, Ok }]".to_string(), false),
        Fail::FilterSelect => ("! [#'int { =q, z = ! [5], Ok }]".to_string(), false),
        Fail::Edge(k) => (format!("x = [{}], 0", EDGE_CALLS[k % EDGE_CALLS.len()]), false),
        Fail::HostlessIo(k) => (HOSTLESS_CALLS[k % HOSTLESS_CALLS.len()].to_string(), false),
        Fail::NoBackendIo => ("f = [\"/x\" .0, 577, 420] __file_open__, 0".to_string(), false),
        Fail::HugeRead => ("f = [\"/huge\" .0, 0, 0] __file_open__, d = [f, 0, 20000000] __file_read__, d __binary_length__".to_string(), true),
    };
    (format!("victim = #'int {{ =n, {pre}w = [{spin}, 0] spin, {op} }}"), io)
}

impl Property for C15 {
    fn id(&self) -> &'static str {
        "C15"
    }
    fn cases(&self, tier: Tier) -> usize {
        match tier {
            Tier::Quick => 800,
            Tier::Thorough => 4000,
        }
    }
    fn variants(&self, tier: Tier) -> usize {
        match tier {
            Tier::Quick => 36,
            Tier::Thorough => 250,
        }
    }
    fn rule_text(&self) -> &'static str {
        "cases: a victim process fails at a generated point (builtin domain errors, missing file, ownership violation, injected backend write error, spawn/send/nested select inside a receive filter) inside a generated system of by-standers, direct and transitive single-source awaiters that await before, during or after the failure, senders to the victim before/after its death, and a multi-source selector (counted, not judged); each scenario runs under V sampled schedule/configuration variants. Non-trivial: >=2 workers, >=1 out-of-order handled message or injected fault, conclusive. Distinct = distinct (scenario shape, interleaving hash) pairs."
    }
    fn required_probes(&self) -> Vec<&'static str> {
        vec!["awaiter_failed_with_victims_error", "bystander_unaffected", "client_saw_victim_error", "sender_to_dead_unaffected", "repl_session_survived_odd_line", "awaiter_with_effect_in_flight", "poller_no_longer_awaiting_when_victim_fails", "read_length_over_binary_limit", "lines_entered_into_a_failed_session"]
    }
    fn draw_cfg(&self, rng: &mut Rng, scn: &Scenario) -> crate::world::RunCfg {
        // the failure is the scenario's own; no additional random backend faults
        let mut c = super::default_cfg(rng, scn);
        c.faults = scn.fixed_faults.clone();
        c.io_signatures_only = scn.family == "c15-HostlessIo";
        c.keep_session_after_error = scn.family == "c15-repl-kept-session";
        c.no_effect_backend = scn.family == "c15-NoBackendIo";
        c
    }
    fn generate(&self, rng: &mut Rng, _tier: Tier) -> Scenario {
        if rng.chance(1, 8) {
            return repl_session(rng);
        }
        if rng.chance(1, 30) {
            return repl_kept_session(rng);
        }
        if rng.chance(1, 30) {
            return repl_eager_client(rng);
        }
        let fails = [
            Fail::DivZero,
            Fail::DivZero,
            Fail::ModZero,
            Fail::NegBinary,
            Fail::SliceOob,
            Fail::SqrtNeg,
            Fail::OpenMissing,
            Fail::TcpRefused,
            Fail::Ownership,
            Fail::FilterSpawn,
            Fail::FilterSend,
            Fail::FilterSelect,
            Fail::InjectedWrite(FaultKind::SubmitError),
            Fail::InjectedWrite(FaultKind::CompleteError),
        ];
        let f = if rng.chance(1, 5) {
            Fail::Edge(rng.usize(EDGE_CALLS.len()))
        } else if rng.chance(1, 40) {
            Fail::NoBackendIo
        } else if rng.chance(1, 30) {
            Fail::HostlessIo(rng.usize(HOSTLESS_CALLS.len()))
        } else {
            *rng.pick(&fails)
        };
        let filter_kind = matches!(f, Fail::FilterSpawn | Fail::FilterSend | Fail::FilterSelect);
        let receives = !filter_kind && rng.chance(1, 2);
        let vspin = *rng.pick(&[0u32, 0, 5, 20, 60]);
        let (vdef, io) = victim_def(f, vspin, receives);
        let mut defs: Vec<String> = vec![super::c04::SPIN.into(), AW.into(), BY.into(), SNDV.into(), REL.into(), REL2.into(), REL3.into(), POLL.into(), POLLW.into(), GATE.into(), SUP.into(), NEVER.into(), SUP2.into(), SELF.into()];
        if f == Fail::Ownership {
            defs.push(SINK.into());
        }
        defs.push(vdef);
        let mut h = crate::rng::Fnv::default();
        h.str(&format!("{:?}", f));
        h.u64(receives as u64);
        h.u64(vspin as u64);

        let mut body: Vec<String> = Vec::new();
        // path bookkeeping: children of main in spawn order
        let mut next_child = 0usize;
        let mut expect_err: Vec<String> = Vec::new(); // paths that must carry the victim's error
        let mut expect_val: BTreeMap<String, String> = BTreeMap::new();
        let mut fresh_path = |n: &mut usize| {
            let p = format!("R0/{}", *n);
            *n += 1;
            p
        };
        let varg = rng.range(1, 9);
        body.push(format!("v = {varg} @victim"));
        let vpath = fresh_path(&mut next_child);
        if f == Fail::Ownership {
            expect_val.insert(format!("{vpath}/0"), "5".to_string());
        }
        let needs_msg = receives || filter_kind;
        // processes that poll the victim once (`! [v, 0]`) while it cannot have failed yet - it waits for
        // a message that main sends later - and then no longer await it: one finishes before the victim
        // is released, one is still alive (waiting for its own message) when the victim fails. Neither
        // awaits the victim at the time of the failure, so both must end with their normal results.
        let mut pollers = 0;
        let mut pollw = false;
        if needs_msg && rng.chance(1, 2) {
            body.push(format!("pl = [&v, {}] @poll", *rng.pick(&[0u32, 5, 40])));
            let p = fresh_path(&mut next_child);
            expect_val.insert(p, "1".to_string());
            body.push("rpl = !pl".to_string());
            pollers += 1;
            if rng.chance(1, 2) {
                // pw tells a gate process when it has polled; main releases the victim only after the gate
                // has finished, and wakes pw at the very end
                body.push("gt = @gate".to_string());
                let p = fresh_path(&mut next_child);
                expect_val.insert(p, "1".to_string());
                body.push("pw = [&v, &gt] @pollw".to_string());
                let p = fresh_path(&mut next_child);
                expect_val.insert(p, "42".to_string());
                body.push("rgt = !gt".to_string());
                pollw = true;
                pollers += 1;
            }
            h.u64(0x9011 + pollers as u64);
        }
        // by-standers
        let nby = 1 + rng.usize(3);
        h.u64(nby as u64);
        let mut by_vals = Vec::new();
        for i in 0..nby {
            let n = rng.range(1, 40);
            let s = *rng.pick(&[0u32, 4, 30]);
            body.push(format!("b{i} = [{n}, {s}] @by"));
            let p = fresh_path(&mut next_child);
            expect_val.insert(p, (n + 5).to_string());
            by_vals.push((n + 5).to_string());
        }
        // awaiters: direct and transitive
        let naw = rng.usize(4);
        h.u64(naw as u64);
        let mut aw_names: Vec<String> = Vec::new();
        for i in 0..naw {
            let s = *rng.pick(&[0u32, 0, 10, 50, 120]);
            h.u64(s as u64);
            let target = if i > 0 && rng.chance(1, 2) { aw_names[rng.usize(i)].clone() } else { "v".to_string() };
            body.push(format!("a{i} = [&{target}, {s}] @aw"));
            let p = fresh_path(&mut next_child);
            expect_err.push(p);
            aw_names.push(format!("a{i}"));
        }
        // a supervisor whose one select lists the victim among processes that never finish, in any
        // position: when its query is answered some entries say "failed", others "not finished yet"
        if rng.chance(1, 3) {
            body.push("nv1 = @never".to_string());
            let _ = fresh_path(&mut next_child);
            body.push("nv2 = @never".to_string());
            let _ = fresh_path(&mut next_child);
            let order = match rng.below(3) {
                0 => "&v, &nv1, &nv2",
                1 => "&nv1, &v, &nv2",
                _ => "&nv1, &nv2, &v",
            };
            body.push(format!("sp = [{order}, {}] @sup", *rng.pick(&[0u32, 0, 20, 120])));
            let p = fresh_path(&mut next_child);
            expect_err.push(p);
            h.u64(0x5a);
        }
        if rng.chance(1, 3) {
            body.push("nv3 = @never".to_string());
            let _ = fresh_path(&mut next_child);
            body.push(format!("sq = [&b0, &nv3, &v, {}] @sup2", *rng.pick(&[0u32, 2, 8, 30])));
            let p = fresh_path(&mut next_child);
            expect_err.push(p);
            h.u64(0x5b);
        }
        if rng.chance(1, 3) {
            body.push(format!("sf = [&v, {}] @self", *rng.pick(&[5u32, 40, 150, 400])));
            let p = fresh_path(&mut next_child);
            expect_err.push(p);
            // messages its filter rejects, sent while the victim is still running
            let nm = 1 + rng.usize(3);
            for i in 0..nm {
                body.push(format!("{} sf", 50 + i));
            }
            h.u64(0x5c);
            h.u64(nm as u64);
        }
        // by-standers that ask for more bytes than a binary can hold: a read of 20 000 000 from a file of
        // 16 MiB + 4 KiB (rare: every run moves 16 MiB through the transport and the event log), and a
        // read of 10^15 bytes from a two-byte file - both are answered with what fits
        let mut huge = false;
        if !matches!(f, Fail::InjectedWrite(_) | Fail::HostlessIo(_) | Fail::NoBackendIo) {
            if rng.chance(1, 60) {
                body.push("bh = @{ f = [\"/huge\" .0, 0, 0] __file_open__, d = [f, 0, 20000000] __file_read__, d __binary_length__ }".to_string());
                let p = fresh_path(&mut next_child);
                expect_val.insert(p, "16777216".to_string());
                huge = true;
            }
            if rng.chance(1, 8) {
                body.push("bl = @{ f = [\"/cap\" .0, 577, 420] __file_open__, w = [f, 0, 0x0102] __file_write__, d = [f, 0, 1000000000000000] __file_read__, d __binary_length__ }".to_string());
                let p = fresh_path(&mut next_child);
                expect_val.insert(p, "2".to_string());
                huge = true;
            }
        }
        // a by-stander whose one select lists a builtin receiver ahead of a receive function with a
        // filter body, and gets a message for the filter
        if rng.chance(1, 6) {
            body.push("bsel = @{ ! [&__integer_and__, #'int { =7 => Ok }, #'bin { =0xff => Ok }] }".to_string());
            let p = fresh_path(&mut next_child);
            if rng.chance(1, 2) {
                body.push("7 bsel".to_string());
                expect_val.insert(p, "7".to_string());
            } else {
                body.push("0xff bsel".to_string());
                expect_val.insert(p, "0xff".to_string());
            }
            h.u64(0xb5e1);
        }
        // a by-stander whose work is a builtin call at the edge of its index arithmetic
        if rng.chance(1, 5) {
            body.push(format!("ex = @{{ x = [{}], 5 }}", *rng.pick(&EDGE_TOTAL_CALLS)));
            let p = fresh_path(&mut next_child);
            expect_val.insert(p, "5".to_string());
            h.u64(0xed6e);
        }
        // senders / direct sends to the victim
        let mut senders = 0;
        if needs_msg {
            if rng.chance(1, 2) {
                let k = 1 + rng.usize(3);
                let s = *rng.pick(&[0u32, 8]);
                body.push(format!("s0 = [&v, 101, {k}, {s}] @sndv"));
                let p = fresh_path(&mut next_child);
                expect_val.insert(p, "0".to_string());
                senders += 1;
            } else {
                body.push("7 v".to_string());
            }
        }
        // relaxed multi-source selector (not judged)
        // processes racing the victim's failure against something else: value, or the victim's error
        let mut either: BTreeMap<String, String> = BTreeMap::new();
        let mut relaxed_path = None;
        if rng.chance(1, 3) {
            body.push("rl = &v @rel".to_string());
            relaxed_path = Some(fresh_path(&mut next_child));
            either.insert(relaxed_path.clone().unwrap(), "77".to_string());
            body.push("77 rl".to_string());
            h.u64(0xab);
        }
        // processes that once awaited the victim and have an effect in flight when its failure
        // arrives (after a timed-out await, or inside a receive filter); outcome not judged
        let mut io_awaiters = false;
        // (not next to an injected-write victim: the fault plan counts backend requests)
        if !matches!(f, Fail::InjectedWrite(_) | Fail::HostlessIo(_) | Fail::NoBackendIo) && rng.chance(1, 3) {
            io_awaiters = true;
            if rng.chance(1, 2) {
                body.push("r2 = &v @rel2".to_string());
                either.insert(fresh_path(&mut next_child), "1".to_string());
            } else {
                body.push("r3 = &v @rel3".to_string());
                either.insert(fresh_path(&mut next_child), "1".to_string());
                body.push("5 r3".to_string());
            }
            h.u64(0xef);
        }
        // await by-standers
        for i in 0..nby {
            body.push(format!("rb{i} = !b{i}"));
        }
        if pollw {
            body.push("41 pw".to_string());
            body.push("rpw = !pw".to_string());
        }
        // late sends to the (probably dead) victim
        if needs_msg && rng.chance(1, 2) {
            body.push("8 v".to_string());
            body.push("9 v".to_string());
            h.u64(0xcd);
        }
        // ending
        let client_awaits = rng.below(3);
        h.u64(client_awaits);
        let client_expect;
        match client_awaits {
            0 => {
                body.push(format!("[{}]", (0..nby).map(|i| format!("rb{i}")).collect::<Vec<_>>().join(", ")));
                client_expect = serde_json::json!({"value": format!("[{}]", by_vals.join(", "))});
            }
            1 => {
                body.push("!v".to_string());
                client_expect = serde_json::json!({"error": true});
            }
            _ => {
                if let Some(a) = aw_names.last() {
                    body.push(format!("!{a}"));
                } else {
                    body.push("!v".to_string());
                }
                client_expect = serde_json::json!({"error": true});
            }
        }
        if client_awaits != 0 {
            expect_err.push("R0".to_string());
        }
        let mut fixed_faults = BTreeMap::new();
        if let Fail::InjectedWrite(k) = f {
            fixed_faults.insert(1u64, k);
        }
        let ops = vec![ClientOp::Line { session: 0, src: format!("{}, {}", defs.join(", "), body.join(", ")) }];
        Scenario {
            family: format!("c15-{:?}", f).split('(').next().unwrap().to_string(),
            ops,
            modules: vec![],
            files: Default::default(),
            timing: false,
            io: io || io_awaiters || huge,
            fixed_faults,
            expect: serde_json::json!({
                "io_awaiters": io_awaiters,
                "victim": vpath,
                "must_carry_victims_error": expect_err,
                "values": expect_val,
                "client": client_expect,
                "relaxed": relaxed_path,
                "either": either,
                "senders": senders,
                "pollers": pollers,
                "huge": huge,
            }),
            shape: h.0,
            est_len: 100,
            min_quantum: 0,
        }
    }
    fn monitor(&self, _scn: &Scenario) -> Box<dyn Monitor + Send> {
        Box::new(super::c04::MsgMonitor::new("C15"))
    }
    fn run_probes(&self, scn: &Scenario, r: &RunResult) -> BTreeMap<String, u64> {
        probes_from(scn, r)
    }
    fn judge(&self, scn: &Scenario, _refdata: Option<&RefData>, r: &RunResult) -> Vec<Violation> {
        let mut v = Vec::new();
        let e = &scn.expect;
        if let Some(by) = e.get("repl_kept").and_then(|x| x.as_str()) {
            // the session is dead (every later line reports the error again, or is refused); what must
            // hold is that nothing else is: the by-stander finishes with its value
            match r.procs.get("R0/0") {
                Some(x) if x == by => {}
                other => v.push(Violation::new("C15", "containment", "session-or-bystander-lost", format!("after lines entered into a failed session the by-stander R0/0 ended with {:?}; expected {by}", other), r.steps)),
            }
            return v;
        }
        if let Some(fin) = e.get("repl_final").and_then(|x| x.as_str()) {
            // an ill-behaved REPL line must not take the worker (and with it the by-stander) down
            match r.outs.last() {
                Some(Out::Value(s)) if s == fin => {}
                other => v.push(Violation::new("C15", "containment", "session-or-bystander-lost", format!("after an ill-behaved REPL line the session yielded {:?}; expected the by-stander's result {fin}", other), r.steps)),
            }
            return v;
        }
        let vpath = e["victim"].as_str().unwrap_or("");
        let Some(verr) = r.procs.get(vpath) else {
            v.push(Violation::new("C15", "victim", "missing", format!("victim {vpath} not found in {:?}", r.procs.keys()), r.steps));
            return v;
        };
        if !verr.starts_with("ERR(") {
            v.push(Violation::new("C15", "victim", "did-not-fail", format!("victim {vpath} ended with {verr} instead of a runtime error"), r.steps));
            return v;
        }
        // processes whose select races the victim's failure against a message or a timeout, some with an
        // effect in flight: either outcome is legal, nothing else is (another error, still running)
        for (p, val) in e["either"].as_object().into_iter().flatten() {
            let val = val.as_str().unwrap_or("");
            match r.procs.get(p) {
                Some(x) if x == val || x == verr => {}
                other => v.push(Violation::new("C15", "containment", "racing-awaiter-unexpected-outcome", format!("process {p} (one select listing the victim next to another source) ended with {:?}; expected {val} or the victim's error {verr}", other), r.steps)),
            }
        }
        // (2) every transitive single-source awaiter carries exactly the victim's error
        for p in e["must_carry_victims_error"].as_array().into_iter().flatten() {
            let p = p.as_str().unwrap_or("");
            match r.procs.get(p) {
                Some(x) if x == verr => {}
                other => {
                    let cause = match other {
                        Some(x) if x.starts_with("ERR(") => "different-error",
                        Some(x) if x == "<running>" => "awaiter-not-failed",
                        Some(_) => "awaiter-got-value",
                        None => "awaiter-missing",
                    };
                    v.push(Violation::new("C15", "propagation", cause, format!("awaiter {p} ended with {:?}; the victim {vpath} failed with {verr}", other), r.steps));
                    return v;
                }
            }
        }
        // (1)+(3) by-standers and senders end with their model results
        if let Some(vals) = e["values"].as_object() {
            for (p, x) in vals {
                let x = x.as_str().unwrap_or("");
                match r.procs.get(p) {
                    Some(got) if got == x => {}
                    other => {
                        v.push(Violation::new("C15", "containment", "bystander-affected", format!("process {p} (does not await the victim) ended with {:?}, expected {x}; victim error {verr}", other), r.steps));
                        return v;
                    }
                }
            }
        }
        // (5) the client gets its value or the victim's error
        let inner = verr.strip_prefix("ERR(").and_then(|s| s.strip_suffix(')')).unwrap_or(verr);
        match (r.outs.last(), e["client"].get("value"), e["client"].get("error")) {
            (Some(Out::Value(s)), Some(x), _) if Some(s.as_str()) == x.as_str() => {}
            (Some(Out::RuntimeError(s)), _, Some(_)) if s == inner => {}
            (got, _, _) => {
                v.push(Violation::new("C15", "client", "wrong-outcome", format!("client got {:?}; expected {} (victim error {inner})", got, e["client"]), r.steps));
            }
        }
        v
    }
}

/// REPL lines that leave the session in an odd state: a line cut short by nil (later bindings
/// never bound), a tail call at the top level, an await of a never-bound "process". None may crash
/// a worker; a by-stander spawned earlier must still be awaitable.
/// A session whose line fails at run time, in a host whose REPL glue keeps the session (quiver-web):
/// the following lines resume the failed process. They may report the error again; the worker and the
/// by-stander on it must survive.
fn repl_kept_session(rng: &mut Rng) -> Scenario {
    let n = rng.range(1, 40);
    let sp = *rng.pick(&[30u32, 200, 600]);
    let mut ops = vec![ClientOp::Line { session: 0, src: format!("{}, {BY}, b0 = [{n}, {sp}] @by, a = 7", super::c04::SPIN) }];
    ops.push(ClientOp::Line { session: 0, src: format!("[a, 0] {}", *rng.pick(&["__integer_divide__", "__integer_modulo__"])) });
    ops.push(ClientOp::Line { session: 0, src: "a".to_string() });
    if rng.chance(1, 2) {
        ops.push(ClientOp::Vars { session: 0 });
    }
    ops.push(ClientOp::Line { session: 0, src: "!b0".to_string() });
    let mut h = crate::rng::Fnv::default();
    h.u64(0x4e92);
    h.u64(ops.len() as u64);
    Scenario {
        family: "c15-repl-kept-session".into(),
        ops,
        modules: vec![],
        files: Default::default(),
        timing: false,
        io: false,
        fixed_faults: Default::default(),
        expect: serde_json::json!({ "repl_kept": (n + 5).to_string() }),
        shape: h.0,
        est_len: 100,
        min_quantum: 0,
    }
}

/// A client that enters a line while the previous one is still running (quiver-web evaluates every
/// queued line on its next tick): the second line may be refused or lost, the worker and the by-stander
/// on it must survive.
fn repl_eager_client(rng: &mut Rng) -> Scenario {
    let n = rng.range(1, 40);
    let sp = *rng.pick(&[30u32, 200, 600]);
    let mut ops = vec![ClientOp::Line { session: 0, src: format!("{}, {BY}, b0 = [{n}, {sp}] @by, a = 7", super::c04::SPIN) }];
    // a line that blocks (or runs long), entered without waiting for it
    ops.push(ClientOp::Line { session: 0, src: format!("nowait>{}", *rng.pick(&["!#'int", "w = [3000, 0] spin", "z = ! [400]"])) });
    ops.push(ClientOp::Line { session: 0, src: "nowait>a".to_string() });
    // a second session ends the script; the by-stander is judged from the process table
    ops.push(ClientOp::Line { session: 1, src: format!("{}, w = [800, 0] spin", super::c04::SPIN) });
    let mut h = crate::rng::Fnv::default();
    h.u64(0x4e93);
    h.u64(sp as u64);
    Scenario {
        family: "c15-repl-eager-client".into(),
        ops,
        modules: vec![],
        files: Default::default(),
        timing: true,
        io: false,
        fixed_faults: Default::default(),
        expect: serde_json::json!({ "repl_kept": (n + 5).to_string() }),
        shape: h.0,
        est_len: 150,
        min_quantum: 0,
    }
}

fn repl_session(rng: &mut Rng) -> Scenario {
    let n = rng.range(1, 40);
    let sp = *rng.pick(&[0u32, 30, 200]);
    let mut ops = vec![ClientOp::Line { session: 0, src: format!("{}, {BY}, b0 = [{n}, {sp}] @by, g = #'int {{ [~, 1] __integer_add__ }}, a = 7", super::c04::SPIN) }];
    let kind = rng.below(5);
    let odd = match kind {
        0 => "a =999999, y = 7, z = [y, 1] __integer_add__",
        1 => "5 ^g",
        2 => "a =999999, p = @{ 1 }",
        3 => "k = 3, a =999999, [u, w] = [k, 0x0102]",
        // the session polls a process once; the process fails while the session sleeps between lines
        _ => "vq = @{ m = !'int, [m, 0] __integer_divide__ }, pq = [! [vq, 0]]",
    };
    ops.push(ClientOp::Line { session: 0, src: odd.to_string() });
    if kind == 4 {
        ops.push(ClientOp::Line { session: 0, src: "1 vq".to_string() });
        if rng.chance(1, 2) {
            ops.push(ClientOp::Line { session: 0, src: format!("w = [{}, 0] spin", *rng.pick(&[5u32, 60, 300])) });
        }
    }
    if rng.chance(1, 2) {
        ops.push(ClientOp::Vars { session: 0 });
    }
    ops.push(ClientOp::Line { session: 0, src: "a".to_string() });
    if rng.chance(1, 2) {
        ops.push(ClientOp::Line { session: 0, src: "c = [a, 1] __integer_add__".to_string() });
    }
    ops.push(ClientOp::Line { session: 0, src: "!b0".to_string() });
    let mut h = crate::rng::Fnv::default();
    h.u64(0x4e91);
    h.u64(kind);
    h.u64(ops.len() as u64);
    Scenario {
        family: "c15-repl-odd-line".into(),
        ops,
        modules: vec![],
        files: Default::default(),
        timing: false,
        io: false,
        fixed_faults: Default::default(),
        expect: serde_json::json!({ "repl_final": (n + 5).to_string() }),
        shape: h.0,
        est_len: 100,
        min_quantum: 0,
    }
}

/// Probe counters derived from a judged run (called by the runner through `probes_from`).
pub fn probes_from(scn: &Scenario, r: &RunResult) -> BTreeMap<String, u64> {
    let mut m = BTreeMap::new();
    let e = &scn.expect;
    if e.get("repl_kept").is_some() {
        m.insert("lines_entered_into_a_failed_session".into(), 1);
        return m;
    }
    if e.get("repl_final").is_some() {
        m.insert("repl_session_survived_odd_line".into(), matches!(r.outs.last(), Some(Out::Value(_))) as u64);
        return m;
    }
    let vpath = e["victim"].as_str().unwrap_or("");
    let Some(verr) = r.procs.get(vpath) else { return m };
    let n_aw = e["must_carry_victims_error"].as_array().map(|a| a.iter().filter(|p| r.procs.get(p.as_str().unwrap_or("")) == Some(verr)).count()).unwrap_or(0);
    m.insert("awaiter_failed_with_victims_error".into(), n_aw as u64);
    let n_by = e["values"].as_object().map(|o| o.len()).unwrap_or(0);
    m.insert("bystander_unaffected".into(), n_by as u64);
    if e["client"].get("error").is_some() && matches!(r.outs.last(), Some(Out::RuntimeError(_))) {
        m.insert("client_saw_victim_error".into(), 1);
    }
    if e["senders"].as_u64().unwrap_or(0) > 0 {
        m.insert("sender_to_dead_unaffected".into(), 1);
    }
    if e["io_awaiters"].as_bool().unwrap_or(false) {
        m.insert("awaiter_with_effect_in_flight".into(), 1);
    }
    if e["pollers"].as_u64().unwrap_or(0) > 0 {
        m.insert("poller_no_longer_awaiting_when_victim_fails".into(), e["pollers"].as_u64().unwrap_or(0));
    }
    if e["huge"].as_bool().unwrap_or(false) {
        m.insert("read_length_over_binary_limit".into(), 1);
    }
    if let Some(p) = e["relaxed"].as_str() {
        match r.procs.get(p) {
            Some(x) if x.starts_with("ERR(") => {
                m.insert("relaxed_multi_source_selector_killed".into(), 1);
            }
            Some(_) => {
                m.insert("relaxed_multi_source_selector_survived".into(), 1);
            }
            None => {}
        }
    }
    m
}
