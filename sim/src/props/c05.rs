//! C05 — select follows its documented semantics: priority, filters, timeouts.
//! A subject process performs a generated sequence of selects; stimulus actions make sources
//! ready in a generated order. The monitor records, for every turn of the subject's worker, what
//! the subject could see; at the end an executable reference model of select judges every
//! completion against the recorded history.

use super::{Property, RefData, Scenario, Tier};
use crate::client::{Client, ClientOp};
use crate::rng::Rng;
use crate::run::{EndState, Monitor, RunResult, Violation};
use crate::world::{Decision, StepOutcome, World};
use num_traits::ToPrimitive;
use quiver_core::bytecode::Instruction;
use quiver_core::value::{Binary, Value};
use quiver_environment::{Command, Event};
use serde::{Deserialize, Serialize};
use std::collections::BTreeMap;

pub struct C05;

#[derive(Clone, Debug, Serialize, Deserialize, PartialEq)]
pub enum Src {
    Proc(usize),
    Int,
    Bin,
    IntEq(i64),
    IntGt(i64),
    IntEqLong(i64, u32),
    BinPrefix(u8),
    Timeout(u64),
    /// `#('int | 'bin | ['int, 'int])` (the drain source)
    Any,
    /// `#['int, 'int]` type-only
    Pair,
    /// `&__integer_add__`: a builtin is body-less, it only names the message type ['int, 'int]
    BuiltinPair,
    /// `#('int | 'bin)`: overlaps with the int and bin sources
    IntOrBin,
}

#[derive(Clone, Debug, PartialEq, Serialize, Deserialize)]
pub enum Msg {
    Int(i64),
    Bin(Vec<u8>),
    Pair(i64, i64),
    Other(String),
}

impl Msg {
    fn canon(&self) -> String {
        match self {
            Msg::Int(i) => i.to_string(),
            Msg::Bin(b) => format!("0x{}", crate::canon::hex(b)),
            Msg::Pair(a, b) => format!("[{a}, {b}]"),
            Msg::Other(s) => s.clone(),
        }
    }
}

impl Src {
    fn render(&self) -> String {
        match self {
            Src::Proc(i) => format!("p{i}"),
            Src::Int => "#'int".into(),
            Src::Bin => "#'bin".into(),
            Src::IntEq(k) => format!("#'int {{ ={k} }}"),
            Src::IntGt(k) => format!("#'int {{ =m, [m, {k}] __integer_compare__ =1 }}"),
            Src::IntEqLong(k, s) => format!("#'int {{ =m, w = [{s}, 0] spin, m ={k} }}"),
            Src::BinPrefix(p) => format!("#'bin {{ =m, [m, 0, 1] __binary_slice__ =0x{:02x} }}", p),
            Src::Timeout(d) => d.to_string(),
            Src::Any => "#('int | 'bin | ['int, 'int])".into(),
            Src::Pair => "#['int, 'int]".into(),
            Src::BuiltinPair => "&__integer_add__".into(),
            Src::IntOrBin => "#('int | 'bin)".into(),
        }
    }
    fn accepts(&self, m: &Msg) -> bool {
        match (self, m) {
            (Src::Any, Msg::Int(_) | Msg::Bin(_) | Msg::Pair(..)) => true,
            (Src::Pair | Src::BuiltinPair, Msg::Pair(..)) => true,
            (Src::IntOrBin, Msg::Int(_) | Msg::Bin(_)) => true,
            (Src::Int, Msg::Int(_)) => true,
            (Src::Bin, Msg::Bin(_)) => true,
            (Src::IntEq(k), Msg::Int(i)) | (Src::IntEqLong(k, _), Msg::Int(i)) => i == k,
            (Src::IntGt(k), Msg::Int(i)) => i > k,
            (Src::BinPrefix(p), Msg::Bin(b)) => b.first() == Some(p),
            _ => false,
        }
    }
    fn is_receive(&self) -> bool {
        !matches!(self, Src::Proc(_) | Src::Timeout(_))
    }
}

#[derive(Clone, Debug, Serialize, Deserialize)]
pub struct Child {
    pub c: i64,
    pub fails: bool,
    /// finishes without waiting for a go message
    pub immediate: bool,
}

#[derive(Clone, Debug, Serialize, Deserialize)]
pub struct Expect {
    pub selects: Vec<Vec<Src>>,
    pub ndrain: usize,
    pub children: Vec<Child>,
    pub subject_path: String,
    pub child_paths: Vec<String>,
}

#[derive(Clone, Debug)]
enum Act {
    Send(Msg),
    /// sent by a helper process instead of the main line (a second sender)
    SendVia(Msg),
    Go(usize),
    Sleep(u64),
    Spin(u32),
}

impl Property for C05 {
    fn id(&self) -> &'static str {
        "C05"
    }
    fn cases(&self, tier: Tier) -> usize {
        match tier {
            Tier::Quick => 1000,
            Tier::Thorough => 4000,
        }
    }
    fn variants(&self, tier: Tier) -> usize {
        match tier {
            Tier::Quick => 40,
            Tier::Thorough => 300,
        }
    }
    fn rule_text(&self) -> &'static str {
        "cases: a subject process performs 1-3 generated selects (awaited children that finish, fail or never finish; typed receives with and without filter bodies over disjoint and overlapping types, some filters long enough to span many turns at quantum 1; timeouts incl. 0) followed by zero-timeout drains of its mailbox, while a stimulus script sends unique typed messages, releases children and lets virtual time pass, in generated order. The monitor records after every turn of the subject's worker what the subject could see (mailbox at slice start, known results, clock value, vector clock); at the end a reference model of select judges each completion: the yielding source was ready; no earlier-written source was ready (mailbox content, results known or causally known, timeouts elapsed); a timeout never fires earlier than its duration after the select was entered (true virtual time); untaken messages keep their order (drains). Non-trivial: >=2 workers, >=1 out-of-order handled message or clock fault, conclusive. Distinct = distinct (scenario shape, interleaving hash)."
    }
    fn required_probes(&self) -> Vec<&'static str> {
        vec![
            "select_completed_by_message",
            "select_completed_by_process",
            "select_completed_by_timeout",
            "select_spanned_several_turns",
            "message_arrived_between_reentries",
            "filter_rejected_a_message",
            "higher_priority_source_won_over_ready_lower",
            "timeout_positive_fired",
            "drain_checked",
            "failed_child_propagated",
        ]
    }
    fn draw_cfg(&self, rng: &mut Rng, scn: &Scenario) -> crate::world::RunCfg {
        let mut c = super::default_cfg(rng, scn);
        c.event_driven = rng.chance(1, 2);
        if scn.family.starts_with("c05-relist") && rng.chance(1, 2) {
            // co-locate the subject with the children it awaits
            c.nworkers = 1;
            c.clock_offsets.truncate(1);
        }
        c
    }
    fn generate(&self, rng: &mut Rng, _tier: Tier) -> Scenario {
        if rng.chance(1, 25) {
            return late_type(rng);
        }
        if rng.chance(1, 30) {
            return generic_tuple(rng);
        }
        let mut h = crate::rng::Fnv::default();
        let nchildren = rng.usize(4);
        let mut children: Vec<Child> = Vec::new();
        for i in 0..nchildren {
            children.push(Child { c: 1000 * (i as i64 + 1), fails: rng.chance(1, 8), immediate: rng.chance(1, 4) });
        }
        let await_race = rng.chance(1, 6);
        if await_race {
            // await-only selects over several children released one after the other: exercises the
            // environment's collection of per-worker answers while completions keep arriving
            children.clear();
            let n = 3 + rng.usize(2);
            for i in 0..n {
                children.push(Child { c: 1000 * (i as i64 + 1), fails: false, immediate: rng.chance(1, 3) });
            }
        }
        // back-to-back selects that list the same few children again and again while these finish:
        // every select's own exchange must be told apart from its predecessor's
        let relist = !await_race && rng.chance(1, 6);
        if relist {
            children.clear();
            let n = 2 + rng.usize(2);
            for i in 0..n {
                children.push(Child { c: 1000 * (i as i64 + 1), fails: false, immediate: rng.chance(1, 2) });
            }
        }
        let nchildren = children.len();
        let nsel = if relist { 3 + rng.usize(3) } else { 1 + rng.usize(3) };
        let mut selects: Vec<Vec<Src>> = Vec::new();
        let mut next_int = 1i64;
        let mut interesting_ints: Vec<i64> = Vec::new();
        let mut prefixes: Vec<u8> = Vec::new();
        for _ in 0..nsel {
            let n = 1 + rng.usize(4);
            let mut srcs = Vec::new();
            if await_race {
                let mut order: Vec<usize> = (0..nchildren).collect();
                rng.shuffle(&mut order);
                for i in order.into_iter().take(2 + rng.usize(nchildren - 1)) {
                    srcs.push(Src::Proc(i));
                }
                h.u64(0xa7a17);
                selects.push(srcs);
                continue;
            }
            if relist {
                // odd selects wait for one child (long timeout); the next one lists the same child
                // again in front of something that is ready at once
                let j = selects.len();
                if j % 2 == 0 {
                    srcs.push(Src::Proc(rng.usize(nchildren)));
                    if rng.chance(1, 3) {
                        srcs.push(Src::Proc(rng.usize(nchildren)));
                    }
                } else {
                    let prev = selects[j - 1].iter().find_map(|s| if let Src::Proc(i) = s { Some(*i) } else { None }).unwrap_or(0);
                    srcs.push(Src::Proc(prev));
                    if rng.chance(1, 2) {
                        srcs.push(Src::Proc(rng.usize(nchildren)));
                    }
                    srcs.push(Src::Timeout(*rng.pick(&[0u64, 0, 5])));
                }
                h.u64(0x4e115);
                selects.push(srcs);
                continue;
            }
            for _ in 0..n {
                let s = match rng.below(13) {
                    0..=2 if nchildren > 0 => Src::Proc(rng.usize(nchildren)),
                    0..=2 => Src::Int,
                    3 => Src::Int,
                    4 => Src::Bin,
                    5 => {
                        let k = next_int + rng.range(0, 6) as i64;
                        interesting_ints.push(k);
                        Src::IntEq(k)
                    }
                    6 => {
                        let k = rng.range(2, 12) as i64;
                        Src::IntGt(k)
                    }
                    7..=8 => {
                        let k = next_int + rng.range(0, 6) as i64;
                        interesting_ints.push(k);
                        Src::IntEqLong(k, *rng.pick(&[5u32, 20, 45]))
                    }
                    9 => {
                        let p = *rng.pick(&[0xa1u8, 0xb2, 0xc3]);
                        prefixes.push(p);
                        Src::BinPrefix(p)
                    }
                    10 => match rng.below(3) {
                        0 => Src::Pair,
                        1 => Src::BuiltinPair,
                        _ => Src::IntOrBin,
                    },
                    _ => Src::Timeout(*rng.pick(&[0u64, 0, 5, 20, 60, 150])),
                };
                // a process may be listed twice; other sources are not repeated
                if !srcs.contains(&s) || (matches!(s, Src::Proc(_)) && rng.chance(1, 3)) {
                    srcs.push(s);
                }
                next_int += 1;
            }
            h.str(&format!("{:?}", srcs.iter().map(std::mem::discriminant).collect::<Vec<_>>()));
            selects.push(srcs);
        }
        // make sure the subject cannot block for ever: every select gets a (possibly long) timeout
        // unless it already has one; a third of the time a select is left without one if some source
        // is certain to become ready.
        let mut acts: Vec<Act> = Vec::new();
        let nmsgs = 1 + rng.usize(6);
        let mut used: Vec<Msg> = Vec::new();
        for _ in 0..nmsgs {
            let m = if rng.chance(1, 6) {
                Msg::Pair(rng.range(1, 9) as i64, 100 + used.len() as i64)
            } else if rng.chance(2, 3) {
                // ints: bias towards values the filters look for
                let v = if !interesting_ints.is_empty() && rng.chance(1, 2) { *rng.pick(&interesting_ints) } else { rng.range(1, 20) as i64 };
                Msg::Int(v)
            } else {
                let p = if !prefixes.is_empty() && rng.chance(1, 2) { *rng.pick(&prefixes) } else { *rng.pick(&[0xa1u8, 0xb2, 0xc3, 0xd4]) };
                Msg::Bin(vec![p, 0x00])
            };
            // unique payloads: make ints unique by skipping repeats, bins by a counter byte
            let m = match m {
                Msg::Int(v) => {
                    let mut v = v;
                    while used.contains(&Msg::Int(v)) {
                        v += 20;
                    }
                    Msg::Int(v)
                }
                Msg::Bin(mut b) => {
                    b[1] = used.len() as u8 + 1;
                    Msg::Bin(b)
                }
                o => o,
            };
            used.push(m.clone());
            if rng.chance(1, 5) {
                acts.push(Act::SendVia(m));
            } else {
                acts.push(Act::Send(m));
            }
        }
        for (i, c) in children.iter().enumerate() {
            if !c.immediate && (await_race || relist || rng.chance(3, 4)) {
                acts.push(Act::Go(i));
            }
        }
        let nsleep = rng.usize(4);
        for _ in 0..nsleep {
            acts.push(Act::Sleep(*rng.pick(&[1u64, 5, 20, 60, 150])));
        }
        let nspin = rng.usize(3);
        for _ in 0..nspin {
            acts.push(Act::Spin(*rng.pick(&[5u32, 30, 80])));
        }
        rng.shuffle(&mut acts);
        h.u64(acts.len() as u64);
        for s in selects.iter_mut() {
            if !s.iter().any(|x| matches!(x, Src::Timeout(_))) {
                s.push(Src::Timeout(*rng.pick(&[300u64, 500, 800])));
            }
        }
        let ndrain = nmsgs + 1;

        // render
        let mut defs: Vec<String> = vec![super::c04::SPIN.into()];
        defs.push("ch = #'int { =c, g = !'int, [g, c] __integer_add__ }".into());
        defs.push("chf = #'int { =c, g = !'int, [g, 0] __integer_divide__ }".into());
        defs.push("chi = #'int { =c, [c, 1] __integer_add__ }".into());
        defs.push("chif = #'int { =c, [c, 0] __integer_divide__ }".into());
        defs.push("sndi = #[(@('int | 'bin | ['int, 'int])), 'int] { =[to, m], m to }".into());
        defs.push("sndb = #[(@('int | 'bin | ['int, 'int])), 'bin] { =[to, m], m to }".into());
        defs.push("sndp = #[(@('int | 'bin | ['int, 'int])), ['int, 'int]] { =[to, m], m to }".into());
        let param = match nchildren {
            0 => "#".to_string(),
            1 => "#(@-> 'int) ".to_string(),
            n => format!("#[{}] ", vec!["(@-> 'int)"; n].join(", ")),
        };
        let neg_zero = rng.chance(1, 4);
        h.u64(neg_zero as u64);
        let mut body: Vec<String> = Vec::new();
        match nchildren {
            0 => {}
            1 => body.push("=p0".into()),
            n => body.push(format!("=[{}]", (0..n).map(|i| format!("p{i}")).collect::<Vec<_>>().join(", "))),
        }
        for (k, srcs) in selects.iter().enumerate() {
            // a duration of 0 is sometimes written as a negative one (small, or beyond the i64 range): it has
            // elapsed at once all the same
            let rendered: Vec<String> = srcs
                .iter()
                .map(|s| match s {
                    Src::Timeout(0) if neg_zero => if k % 2 == 0 { "-99999999999999999999999".to_string() } else { "-3".to_string() },
                    s => s.render(),
                })
                .collect();
            body.push(format!("y{k} = ! [{}]", rendered.join(", ")));
        }
        for d in 0..ndrain {
            body.push(format!("d{d} = ! [#('int | 'bin | ['int, 'int]), 0]"));
        }
        let mut outs: Vec<String> = (0..nsel).map(|k| format!("y{k}")).collect();
        outs.extend((0..ndrain).map(|d| format!("d{d}")));
        body.push(format!("[{}]", outs.join(", ")));
        defs.push(format!("subj = {param}{{ {} }}", body.join(", ")));

        let mut main: Vec<String> = Vec::new();
        let mut child_paths = Vec::new();
        let mut nspawn = 0;
        for (i, c) in children.iter().enumerate() {
            let f = match (c.immediate, c.fails) {
                (false, false) => "ch",
                (false, true) => "chf",
                (true, false) => "chi",
                (true, true) => "chif",
            };
            main.push(format!("c{i} = {} @{f}", c.c));
            child_paths.push(format!("R0/{nspawn}"));
            nspawn += 1;
        }
        // optionally let immediate children finish long before the subject starts
        if rng.chance(1, 2) {
            main.push("w0 = [40, 0] spin".into());
        }
        match nchildren {
            0 => main.push("s = @subj".into()),
            1 => main.push("s = &c0 @subj".into()),
            n => main.push(format!("s = [{}] @subj", (0..n).map(|i| format!("&c{i}")).collect::<Vec<_>>().join(", "))),
        }
        let subject_path = format!("R0/{nspawn}");
        let mut timing = false;
        for (ai, a) in acts.iter().enumerate() {
            match a {
                Act::Send(m) => main.push(format!("{} s", m.canon())),
                Act::SendVia(m) => {
                    let f = match m {
                        Msg::Int(_) => "sndi",
                        Msg::Bin(_) => "sndb",
                        _ => "sndp",
                    };
                    main.push(format!("h{ai} = [&s, {}] @{f}", m.canon()));
                }
                Act::Go(i) => main.push(format!("1 c{i}")),
                Act::Sleep(ms) => {
                    timing = true;
                    main.push(format!("z{ai} = ! [{ms}]"));
                }
                Act::Spin(n) => main.push(format!("w{} = [{n}, 0] spin", ai + 1)),
            }
        }
        main.push("fin = ! [s, 5000]".into());
        main.push("0".into());
        let src = format!("{}, {}", defs.join(", "), main.join(", "));
        let expect = Expect { selects, ndrain, children, subject_path, child_paths };
        let _ = timing;
        Scenario {
            family: if relist { format!("c05-relist-{}sel-{}ch", nsel, nchildren) } else { format!("c05-{}sel-{}ch", nsel, nchildren) },
            ops: vec![ClientOp::Line { session: 0, src }],
            modules: vec![],
            files: Default::default(),
            timing: true,
            io: false,
            fixed_faults: Default::default(),
            expect: serde_json::to_value(&expect).unwrap(),
            shape: h.0,
            est_len: 100,
            min_quantum: 0,
        }
    }
    fn monitor(&self, scn: &Scenario) -> Box<dyn Monitor + Send> {
        if scn.expect.get("late_type").is_some() || scn.expect.get("generic_tuple").is_some() {
            return Box::new(crate::run::NoMonitor);
        }
        let e: Expect = serde_json::from_value(scn.expect.clone()).expect("c05 expect");
        Box::new(SelMonitor::new(e))
    }
    fn judge(&self, scn: &Scenario, _refdata: Option<&RefData>, r: &RunResult) -> Vec<Violation> {
        let mut v = Vec::new();
        if let Some(want) = scn.expect.get("generic_tuple").and_then(|x| x.as_str()) {
            let swapped = scn.expect.get("swapped").and_then(|x| x.as_str()).unwrap_or("");
            match r.outs.last() {
                Some(crate::client::Out::Value(s)) if s == want => {}
                // the first-written receive took the tuple of the other element type: the known finding
                Some(crate::client::Out::Value(s)) if s == swapped => v.push(Violation::new("C05", "yield", "generic-built-tuple-taken-by-receive-of-another-type", format!("the receiver yielded {s}, expected {want}: `!#['bin]` took a tuple holding an int because the tuple was built inside a generic function"), r.steps)),
                other => v.push(Violation::new("C05", "yield", "typed-receive-took-wrong-message", format!("the receiver yielded {:?}, expected {want}", other), r.steps)),
            }
            return v;
        }
        if let Some(want) = scn.expect.get("late_type").and_then(|x| x.as_str()) {
            match r.outs.last() {
                Some(crate::client::Out::Value(s)) if s == want => {}
                other => v.push(Violation::new("C05", "yield", "message-of-later-registered-type-not-taken", format!("the session yielded {:?}, expected {want}: every select's message was in the mailbox long before its timeout", other), r.steps)),
            }
        }
        v
    }
}

/// Two messages of one tuple shape and different element types, built by ONE generic function
/// (`wrap = #<'t>'t { [~] }`), sent to a receiver that first takes a `['bin]`, then an `['int]`: "a
/// receive source yields the earliest mailbox message of its type", whatever built the message.
fn generic_tuple(rng: &mut Rng) -> Scenario {
    let n = rng.range(1, 90);
    let direct = rng.chance(1, 3);
    let mut h = crate::rng::Fnv::default();
    h.u64(0x6e7e);
    h.u64(direct as u64);
    let (m1, m2) = if direct { (format!("[{n}] p"), "[0x00] p".to_string()) } else { (format!("{n} wrap p"), "0x00 wrap p".to_string()) };
    let src = format!("wrap = #<'t>'t {{ [~] }}, p = @#{{ x = !#['bin], y = !#['int], [x, y] }}, {m1}, {m2}, !p");
    Scenario {
        family: if direct { "c05-typed-tuples".into() } else { "c05-generic-tuple".into() },
        ops: vec![ClientOp::Line { session: 0, src }],
        modules: vec![],
        files: Default::default(),
        timing: true,
        io: false,
        fixed_faults: Default::default(),
        expect: serde_json::json!({ "generic_tuple": format!("[[0x00], [{n}]]"), "swapped": format!("[[{n}], [0x00]]") }),
        shape: h.0,
        est_len: 100,
        min_quantum: 0,
    }
}

/// Receive sources whose type is open to concrete types that do not exist yet when the receiver
/// starts - a partial type, a process type, a function type - and messages of types first created on
/// a LATER REPL line: "a receive source yields the earliest mailbox message of its type" also when
/// the type is younger than the receiver. Each select has a long timeout, so a message wrongly
/// passed over shows as a nil yield (value 0), not as a hang.
fn late_type(rng: &mut Rng) -> Scenario {
    let mut h = crate::rng::Fnv::default();
    h.u64(0x1a7e7);
    let x = rng.range(1, 90);
    let k = rng.range(1, 40);
    let order = rng.usize(2);
    h.u64(order as u64);
    let subject = "p = @#{ a = ! [#(x: 'int), 5000] { | =[] => 0 | =m => m.x }, b = ! [#(@'int), 5000] { | =[] => 0 | =q => { 5 q, 1 } }, f = ! [#(#'int -> 'int), 5000] { | =[] => 0 | =g => 7 g }, [a, b, f] }, Ok";
    let mut later = vec![format!("B[x: {x}, z: 0x00] p"), "c = @#{ !#'int }, &c p".to_string(), format!("inc = #'int {{ [~, {k}] __integer_add__ }}, &inc p")];
    if order == 1 {
        // all on one later line
        later = vec![later.join(", ")];
    }
    let mut ops = vec![ClientOp::Line { session: 0, src: subject.to_string() }];
    for l in later {
        ops.push(ClientOp::Line { session: 0, src: l });
    }
    ops.push(ClientOp::Line { session: 0, src: "[!p, !c]".to_string() });
    Scenario {
        family: "c05-late-type".into(),
        ops,
        modules: vec![],
        files: Default::default(),
        timing: true,
        io: false,
        fixed_faults: Default::default(),
        expect: serde_json::json!({ "late_type": format!("[[{x}, 1, {}], 5]", 7 + k) }),
        shape: h.0,
        est_len: 150,
        min_quantum: 0,
    }
}

/// What the subject's worker held at the end of the turn in which the subject died.
#[derive(Clone, Debug)]
struct DeathRec {
    step: u64,
    clock: u64,
    /// index of the select the subject was in
    k: usize,
    mailbox: Vec<Msg>,
    known: BTreeMap<usize, bool>,
}

#[derive(Clone, Debug)]
struct TurnRec {
    step: u64,
    tau: u64,
    clock: u64,
    c_before: usize,
    c_after: usize,
    mailbox_at_slice_start: Vec<Msg>,
    /// child index -> known (Some) in the subject's awaiting map before this slice (incl. drained)
    known: BTreeMap<usize, bool>,
    vc: Vec<u32>,
    exchange_incomplete: bool,
    entered_this_turn: bool,
}

pub struct SelMonitor {
    e: Expect,
    subject: Option<(usize, usize)>, // (pid, worker)
    child_pids: Vec<Option<usize>>,
    last_mailbox: Vec<Msg>,
    last_known: BTreeMap<usize, bool>,
    last_completed: usize,
    turns: Vec<TurnRec>,
    /// select index -> implementation start_time observed
    start_time: BTreeMap<usize, u64>,
    /// select index -> tau lower bound of when it was entered
    enter_tau: BTreeMap<usize, u64>,
    /// child index -> (worker, own-turn number, failed, canonical value)
    finished: BTreeMap<usize, (usize, u64, bool, String)>,
    /// child index -> steps at which the child's worker drained a QueryAndAwait from the subject naming it
    queries: BTreeMap<usize, Vec<u64>>,
    /// select index -> step of the turn in which the previous select completed (lower bound of its start)
    enter_step: BTreeMap<usize, u64>,
    /// child index -> steps at which the subject's worker drained a "not finished yet" answer for it
    none_answers: BTreeMap<usize, Vec<u64>>,
    death: Option<DeathRec>,
    inner: super::c04::MsgMonitor,
    probes: BTreeMap<String, u64>,
    select_pcs: Vec<usize>,
    turns_in_select: BTreeMap<usize, u32>,
    arrivals_during_select: BTreeMap<usize, u32>,
}

fn msg_of(v: &Value, heap: Option<&[Vec<u8>]>, ex: Option<&quiver_core::executor::Executor<crate::transport::E>>, program: &quiver_core::program::Program) -> Msg {
    match v {
        Value::Integer(i) => i.to_i64().map(Msg::Int).unwrap_or_else(|| Msg::Other(i.to_string())),
        Value::Binary(Binary::Heap(i)) => {
            if let Some(h) = heap {
                h.get(*i).cloned().map(Msg::Bin).unwrap_or(Msg::Other("dangling".into()))
            } else if let Some(ex) = ex {
                ex.get_heap_binary(*i).map(|d| Msg::Bin(d.to_vec())).unwrap_or(Msg::Other("dangling".into()))
            } else {
                Msg::Other("heap".into())
            }
        }
        Value::Binary(Binary::Constant(i)) => match program.get_constant(*i) {
            Some(quiver_core::bytecode::Constant::Binary(b)) => Msg::Bin(b.clone()),
            _ => Msg::Other("const?".into()),
        },
        Value::Tuple(_, fs) if fs.len() == 2 => match (&fs[0], &fs[1]) {
            (Value::Integer(a), Value::Integer(b)) => match (a.to_i64(), b.to_i64()) {
                (Some(a), Some(b)) => Msg::Pair(a, b),
                _ => Msg::Other(format!("{:?}", v)),
            },
            _ => Msg::Other(format!("{:?}", v)),
        },
        other => Msg::Other(format!("{:?}", other)),
    }
}

impl SelMonitor {
    fn new(e: Expect) -> SelMonitor {
        let n = e.children.len();
        SelMonitor {
            e,
            subject: None,
            child_pids: vec![None; n],
            last_mailbox: Vec::new(),
            last_known: BTreeMap::new(),
            last_completed: 0,
            turns: Vec::new(),
            start_time: BTreeMap::new(),
            enter_tau: BTreeMap::new(),
            finished: BTreeMap::new(),
            queries: BTreeMap::new(),
            enter_step: BTreeMap::new(),
            none_answers: BTreeMap::new(),
            death: None,
            inner: super::c04::MsgMonitor::new_without_fifo("C05"),
            probes: BTreeMap::new(),
            select_pcs: Vec::new(),
            turns_in_select: BTreeMap::new(),
            arrivals_during_select: BTreeMap::new(),
        }
    }
    fn probe(&mut self, k: &str) {
        *self.probes.entry(k.to_string()).or_insert(0) += 1;
    }
    fn total_selects(&self) -> usize {
        self.e.selects.len() + self.e.ndrain
    }
    fn sources(&self, k: usize) -> Vec<Src> {
        if k < self.e.selects.len() {
            self.e.selects[k].clone()
        } else {
            vec![Src::Any, Src::Timeout(0)]
        }
    }
    fn resolve(&mut self, world: &World) {
        if self.subject.is_none() {
            for (pid, name) in &world.pid_names {
                if *name == self.e.subject_path
                    && let Some(w) = world.worker_of(*pid)
                {
                    self.subject = Some((*pid, w));
                }
            }
        }
        for i in 0..self.child_pids.len() {
            if self.child_pids[i].is_none() {
                for (pid, name) in &world.pid_names {
                    if *name == self.e.child_paths[i] {
                        self.child_pids[i] = Some(*pid);
                    }
                }
            }
        }
    }
    fn child_index(&self, pid: usize) -> Option<usize> {
        self.child_pids.iter().position(|p| *p == Some(pid))
    }
}

impl Monitor for SelMonitor {
    fn after(&mut self, world: &World, client: &Client, d: &Decision, out: &StepOutcome) -> Option<Violation> {
        if world.dead {
            return None;
        }
        // conservation of messages, spawn notifications and lost completions (C04's monitors, no
        // sender encoding assumed)
        if let Some(v) = self.inner.after(world, client, d, out) {
            return Some(v);
        }
        self.resolve(world);
        if out.actor == 0 || out.actor == usize::MAX {
            return None;
        }
        let wi = out.actor - 1;
        let program = world.env.get_program();
        // queries from the subject drained by this worker in this turn
        if let Some((spid, _)) = self.subject {
            let sh = world.sh.lock().unwrap();
            for id in &sh.cur_recv {
                if let Some(Command::QueryAndAwait { awaiter, targets }) = sh.cmd(*id)
                    && *awaiter == spid
                {
                    for t in targets {
                        if let Some(ci) = self.child_pids.iter().position(|p| *p == Some(*t)) {
                            self.queries.entry(ci).or_default().push(world.steps);
                        }
                    }
                }
            }
        }
        // children that finished in this turn
        for i in 0..self.child_pids.len() {
            if self.finished.contains_key(&i) {
                continue;
            }
            let Some(pid) = self.child_pids[i] else { continue };
            let Some(w) = world.worker_of(pid) else { continue };
            if w != wi {
                continue;
            }
            let ex = world.workers[w].verif_executor();
            if let Some(p) = ex.get_process(pid)
                && let Some(r) = &p.result
            {
                let own = world.steps;
                let (failed, val) = match r {
                    Ok(v) => (false, msg_of(v, None, Some(ex), program).canon()),
                    Err(e) => (true, format!("{:?}", e)),
                };
                if std::env::var("QSIM_DEBUG").is_ok() {
                    eprintln!("child {i} pid {pid} finished at step {} own turn {own} of worker {w}", world.steps);
                }
                self.finished.insert(i, (w, own, failed, val));
            }
        }
        let Some((spid, sw)) = self.subject else { return None };
        if sw != wi {
            return None;
        }
        let ex = world.workers[sw].verif_executor();
        let Some(p) = ex.get_process(spid) else { return None };
        // select pcs of the subject function (frame 0)
        if self.select_pcs.is_empty()
            && let Some(f0) = p.frames.first()
            && let Some(func) = ex.get_function(f0.function_index)
        {
            self.select_pcs = func.instructions.iter().enumerate().filter(|(_, i)| matches!(i, Instruction::Select)).map(|(pc, _)| pc).collect();
        }
        let completed = if let Some(f0) = p.frames.first() {
            self.select_pcs.iter().filter(|pc| **pc < f0.counter).count()
        } else if p.result.is_some() {
            match &p.result {
                Some(Ok(_)) => self.total_selects(),
                _ => self.last_completed, // failed: whatever had completed
            }
        } else {
            self.last_completed
        };
        // drained this turn
        let sh = world.sh.lock().unwrap();
        let mut drained_msgs = Vec::new();
        let mut known = self.last_known.clone();
        for id in &sh.cur_recv {
            match sh.cmd(*id) {
                Some(Command::DeliverMessage { target, message, heap }) if *target == spid => {
                    drained_msgs.push(msg_of(message, Some(heap), None, program));
                }
                Some(Command::UpdateAwaitResults { awaiter, results }) if *awaiter == spid => {
                    for (t, r) in results {
                        if let Some(ci) = self.child_index(*t) {
                            if r.is_some() {
                                known.insert(ci, true);
                            } else {
                                self.none_answers.entry(ci).or_default().push(world.steps);
                            }
                        }
                    }
                }
                _ => {}
            }
        }
        // is the subject's await exchange incomplete at the end of this turn?
        let mut incomplete = world.env.verif_pending_awaits().iter().any(|(a, _, _)| *a == spid);
        for w in 0..sh.nworkers {
            for id in &sh.evt_q[w] {
                if let Some(Event::AwaitAction { awaiter, .. }) = sh.evt(*id)
                    && *awaiter == spid
                {
                    incomplete = true;
                }
                if let Some(Event::ProcessResults { awaiter, .. }) = sh.evt(*id)
                    && *awaiter == spid
                {
                    incomplete = true;
                }
            }
            for id in &sh.cmd_q[w] {
                match sh.cmd(*id) {
                    Some(Command::QueryAndAwait { awaiter, .. }) | Some(Command::UpdateAwaitResults { awaiter, .. }) if *awaiter == spid => incomplete = true,
                    _ => {}
                }
            }
        }
        let vc = sh.vcs[1 + sw].clone();
        drop(sh);
        let mut slice_start = self.last_mailbox.clone();
        slice_start.extend(drained_msgs.iter().cloned());
        let in_select_before = self.last_completed < self.total_selects() && self.turns_in_select.contains_key(&self.last_completed);
        if !drained_msgs.is_empty() && in_select_before {
            *self.arrivals_during_select.entry(self.last_completed).or_insert(0) += drained_msgs.len() as u32;
        }
        // enter bound for newly started selects
        for k in self.last_completed..=completed.min(self.total_selects().saturating_sub(1)) {
            self.enter_tau.entry(k).or_insert(world.tau);
            self.enter_step.entry(k).or_insert(world.steps);
        }
        if !self.enter_tau.contains_key(&0) {
            self.enter_tau.insert(0, world.tau);
        }
        let mut entered_this_turn = false;
        if let Some(s) = &p.select_state {
            let k = completed;
            if !self.turns_in_select.contains_key(&k) {
                entered_this_turn = true;
            }
            *self.turns_in_select.entry(k).or_insert(0) += 1;
            if let Some(st) = s.start_time {
                self.start_time.entry(k).or_insert(st);
            }
        }
        if completed > self.last_completed {
            // selects completed in this turn that were never seen pending were entered in this turn
            let any_unseen = (self.last_completed..completed).any(|k| !self.turns_in_select.contains_key(&k));
            self.turns.push(TurnRec {
                step: world.steps,
                tau: world.tau,
                clock: out.clock.unwrap_or(0),
                c_before: self.last_completed,
                c_after: completed,
                mailbox_at_slice_start: slice_start.clone(),
                known: known.clone(),
                vc,
                exchange_incomplete: incomplete,
                entered_this_turn: any_unseen || entered_this_turn,
            });
        }
        // snapshot after the turn
        self.last_mailbox = p.mailbox.iter().map(|m| msg_of(m, None, Some(ex), program)).collect();
        if matches!(p.result, Some(Err(_))) && self.death.is_none() {
            self.death = Some(DeathRec { step: world.steps, clock: out.clock.unwrap_or(0), k: completed, mailbox: self.last_mailbox.clone(), known: known.clone() });
        }
        let mut k2 = BTreeMap::new();
        for (t, v) in &p.awaiting {
            if v.is_some()
                && let Some(ci) = self.child_index(*t)
            {
                k2.insert(ci, true);
            }
        }
        self.last_known = k2;
        self.last_completed = completed;
        None
    }

    fn at_end(&mut self, world: &World, _client: &Client, end: &EndState) -> Vec<Violation> {
        let mut v = Vec::new();
        if !matches!(end, EndState::Completed) || world.dead {
            return v;
        }
        let Some((spid, sw)) = self.subject else {
            v.push(Violation::new("HARNESS", "scenario", "subject-never-spawned", "subject process not found".into(), world.steps));
            return v;
        };
        let ex = world.workers[sw].verif_executor();
        let program = world.env.get_program();
        let Some(p) = ex.get_process(spid) else { return v };
        // yields
        let mut yields: Vec<Msg> = Vec::new(); // Msg::Other("[]") for nil
        let mut died_with: Option<String> = None;
        match &p.result {
            Some(Ok(Value::Tuple(_, fs))) => {
                for f in fs.iter() {
                    yields.push(match f {
                        Value::Tuple(_, x) if x.is_empty() => Msg::Other("[]".into()),
                        other => msg_of(other, None, Some(ex), program),
                    });
                }
            }
            Some(Err(e)) => died_with = Some(format!("{:?}", e)),
            Some(Ok(other)) => {
                v.push(Violation::new("HARNESS", "scenario", "subject-result-shape", format!("{:?}", other), world.steps));
                return v;
            }
            None => {
                v.push(Violation::new("C05", "liveness", "subject-never-finished", "the run completed but the subject is still running although every select has a timeout".into(), world.steps));
                return v;
            }
        }
        if died_with.is_none() && yields.len() != self.total_selects() {
            v.push(Violation::new("HARNESS", "scenario", "yield-count", format!("{} yields for {} selects", yields.len(), self.total_selects()), world.steps));
            return v;
        }
        let turns = self.turns.clone();
        let nsel = self.e.selects.len();
        if std::env::var("QSIM_DEBUG").is_ok() {
            eprintln!("finished={:?} queries={:?} enter={:?}", self.finished, self.queries, self.enter_step);
            for t in &turns {
                eprintln!("turn step={} c={}..{} vc={:?} known={:?} incomplete={} entered={}", t.step, t.c_before, t.c_after, t.vc, t.known, t.exchange_incomplete, t.entered_this_turn);
            }
        }
        for tr in &turns {
            let mut mailbox = tr.mailbox_at_slice_start.clone();
            for k in tr.c_before..tr.c_after {
                let srcs = self.sources(k);
                let Some(y) = yields.get(k).cloned() else { break };
                // which source produced the yield?
                let mut j: Option<usize> = None;
                for (idx, s) in srcs.iter().enumerate() {
                    let hit = match (s, &y) {
                        // a nil yield is attributed to the first timeout source whose duration had passed
                        (Src::Timeout(d), Msg::Other(n)) if n == "[]" => {
                            let enter = self.enter_tau.get(&k).copied().unwrap_or(0);
                            tr.tau.saturating_sub(enter) >= *d
                        }
                        (Src::Proc(ci), yv) => self.finished.get(ci).is_some_and(|(_, _, failed, val)| !*failed && *val == yv.canon()),
                        (s, m @ (Msg::Int(_) | Msg::Bin(_) | Msg::Pair(..))) if s.is_receive() => s.accepts(m) && mailbox.contains(m),
                        _ => false,
                    };
                    if hit {
                        j = Some(idx);
                        break;
                    }
                }
                let Some(j) = j else {
                    // yield not explainable by any source that was ready
                    let cause = match &y {
                        Msg::Other(n) if n == "[]" && srcs.iter().any(|s| matches!(s, Src::Timeout(_))) => "timeout-fired-early",
                        Msg::Other(n) if n == "[]" => "nil-without-timeout-source",
                        Msg::Int(_) | Msg::Bin(_) | Msg::Pair(..) if !mailbox.contains(&y) && srcs.iter().any(|s| s.is_receive() && s.accepts(&y)) => "message-not-in-mailbox",
                        Msg::Int(_) | Msg::Bin(_) | Msg::Pair(..) if mailbox.contains(&y) => "filter-verdict",
                        _ => "unexplained",
                    };
                    v.push(Violation::new("C05", "yield", cause, format!("select {k} {:?} yielded {} but no listed source could have produced it (mailbox at that moment: {:?})", srcs.iter().map(|s| s.render()).collect::<Vec<_>>(), y.canon(), mailbox.iter().map(|m| m.canon()).collect::<Vec<_>>()), tr.step));
                    return v;
                };
                // S1 specifics
                match (&srcs[j], &y) {
                    (Src::Timeout(d), _) => {
                        let enter = self.enter_tau.get(&k).copied().unwrap_or(0);
                        if tr.tau.saturating_sub(enter) < *d {
                            v.push(Violation::new("C05", "timeout", "fired-early", format!("select {k}: timeout {d} ms yielded nil {} ms after the select was entered (tau {} -> {})", tr.tau.saturating_sub(enter), enter, tr.tau), tr.step));
                            return v;
                        }
                        if *d > 0 {
                            self.probe("timeout_positive_fired");
                        }
                        self.probe("select_completed_by_timeout");
                    }
                    (Src::Proc(_), _) => self.probe("select_completed_by_process"),
                    (s, m) => {
                        // earliest accepted message of that source must be the one taken
                        if let Some(first) = mailbox.iter().find(|x| s.accepts(x))
                            && first != m
                        {
                            v.push(Violation::new("C05", "yield", "not-earliest-message", format!("select {k}: source {} yielded {} but {} was earlier in the mailbox {:?}", s.render(), m.canon(), first.canon(), mailbox.iter().map(|m| m.canon()).collect::<Vec<_>>()), tr.step));
                            return v;
                        }
                        if mailbox.iter().take_while(|x| *x != m).any(|x| matches!((s, x), (Src::IntEq(_) | Src::IntGt(_) | Src::IntEqLong(..), Msg::Int(_)) | (Src::BinPrefix(_), Msg::Bin(_)))) {
                            self.probe("filter_rejected_a_message");
                        }
                        if k < nsel {
                            self.probe("select_completed_by_message");
                        } else {
                            self.probe("drain_checked");
                        }
                    }
                }
                // S2: no earlier-written source was ready
                for (i, s) in srcs.iter().enumerate().take(j) {
                    match s {
                        Src::Timeout(d) => {
                            if let Some(st) = self.start_time.get(&k)
                                && tr.clock.saturating_sub(*st) >= *d
                            {
                                v.push(Violation::new("C05", "priority", "elapsed-timeout-ignored", format!("select {k}: source {i} (timeout {d}) had elapsed (start {st}, now {}) but source {j} {} won", tr.clock, srcs[j].render()), tr.step));
                                return v;
                            }
                        }
                        Src::Proc(ci) => {
                            if let Some((aw, fstep, failed, _)) = self.finished.get(ci).cloned() {
                                let known = tr.known.get(ci).copied().unwrap_or(false);
                                // A correct implementation evaluates a select only after the initial snapshot of
                                // its listed processes has returned. That snapshot contains p's result if p had
                                // finished before its worker handled this select's query; if no query had been
                                // handled yet, p's result is certainly in the snapshot to come if p finished
                                // before the select was even entered. (A completion *after* the query travels as
                                // a separate notification and may legitimately still be in flight.)
                                let entered = self.enter_step.get(&k).copied().unwrap_or(0);
                                let query = self.queries.get(ci).and_then(|q| q.iter().rev().find(|s| **s >= entered && **s <= tr.step).copied());
                                let in_snapshot = match query {
                                    Some(q) => fstep < q,
                                    None => fstep < entered,
                                };
                                // a "not finished yet" answer for p received after this select was entered can
                                // only belong to an EARLIER select's exchange (this select's own snapshot says
                                // "finished"): the await protocol carries no exchange id, so the stale answer is
                                // taken for the current one and opens the select early
                                let stale_answer = self.none_answers.get(ci).is_some_and(|v| v.iter().any(|s| *s >= entered && *s <= tr.step));
                                if known || in_snapshot {
                                    let cause = if failed {
                                        "failed-process-ignored"
                                    } else if known {
                                        "known-result-ignored"
                                    } else if stale_answer {
                                        "stale-await-answer-of-earlier-select"
                                    } else if query.is_none() || tr.exchange_incomplete {
                                        "eval-before-await-snapshot"
                                    } else {
                                        "completion-lost"
                                    };
                                    v.push(Violation::new("C05", "priority", cause, format!("select {k} {:?} yielded {} from source {j} although earlier-written source {i} (process p{ci} on worker {aw}) had finished at step {fstep}, before {} (select entered at step >= {entered}, completed at step {}); known-to-worker={known} exchange_incomplete={}", srcs.iter().map(|s| s.render()).collect::<Vec<_>>(), y.canon(), match query { Some(q) => format!("its worker answered this select's query at step {q}"), None => "the select was entered".to_string() }, tr.step, tr.exchange_incomplete), tr.step));
                                    return v;
                                }
                            }
                        }
                        s => {
                            if let Some(m) = mailbox.iter().find(|x| s.accepts(x)) {
                                v.push(Violation::new("C05", "priority", "ready-receive-ignored", format!("select {k}: earlier-written source {i} {} accepts {} which was in the mailbox {:?}, yet source {j} {} won with {}", s.render(), m.canon(), mailbox.iter().map(|m| m.canon()).collect::<Vec<_>>(), srcs[j].render(), y.canon()), tr.step));
                                return v;
                            }
                        }
                    }
                }
                // was a lower-priority source also ready? (coverage probe)
                for s in srcs.iter().skip(j + 1) {
                    let ready = match s {
                        Src::Proc(ci) => tr.known.get(ci).copied().unwrap_or(false),
                        Src::Timeout(_) => false,
                        s => mailbox.iter().any(|x| s.accepts(x)),
                    };
                    if ready {
                        self.probe("higher_priority_source_won_over_ready_lower");
                        break;
                    }
                }
                if self.turns_in_select.get(&k).copied().unwrap_or(0) >= 2 {
                    self.probe("select_spanned_several_turns");
                }
                if self.arrivals_during_select.get(&k).copied().unwrap_or(0) > 0 {
                    self.probe("message_arrived_between_reentries");
                }
                // the taken message leaves the mailbox, the rest keeps its order
                if let m @ (Msg::Int(_) | Msg::Bin(_) | Msg::Pair(..)) = &y
                    && srcs[j].is_receive()
                    && let Some(pos) = mailbox.iter().position(|x| x == m)
                {
                    mailbox.remove(pos);
                }
            }
        }
        // a subject that died must have died of a failed child listed in the select it was in, and that
        // child must have been the first ready source in written order: a failure is a select source like
        // a result, it does not overtake a ready earlier-written source, and a process listed only in an
        // earlier, completed select no longer concerns the subject
        if let Some(err) = died_with {
            let death = self.death.clone();
            let k = death.as_ref().map(|d| d.k).unwrap_or(self.last_completed);
            let srcs = self.sources(k);
            let failed_with = |ci: &usize| self.finished.get(ci).is_some_and(|(_, _, failed, val)| *failed && *val == err);
            let jpos = srcs.iter().position(|s| matches!(s, Src::Proc(ci) if failed_with(ci)));
            let listed_before = (0..k.min(nsel)).any(|k2| self.sources(k2).iter().any(|s| matches!(s, Src::Proc(ci) if failed_with(ci))));
            if let Some(j) = jpos {
                self.probe("failed_child_propagated");
                if let Some(d) = &death {
                    for (i, s) in srcs.iter().enumerate().take(j) {
                        let ready: Option<String> = match s {
                            Src::Timeout(dur) => self.start_time.get(&k).filter(|st| d.clock.saturating_sub(**st) >= *dur).map(|st| format!("timeout {dur} had elapsed (start {st}, now {})", d.clock)),
                            Src::Proc(ci) => {
                                if d.known.get(ci).copied().unwrap_or(false) && self.finished.get(ci).is_some_and(|(_, _, failed, _)| !*failed) {
                                    Some(format!("process p{ci} had finished and its result was known to the worker"))
                                } else {
                                    None
                                }
                            }
                            s => d.mailbox.iter().find(|x| s.accepts(x)).map(|m| format!("{} accepts {} which was in the mailbox", s.render(), m.canon())),
                        };
                        if let Some(why) = ready {
                            v.push(Violation::new("C05", "priority", "failure-overtook-ready-source", format!("select {k} {:?}: the subject died of the failure of source {j} at step {} although earlier-written source {i} was ready: {why}", srcs.iter().map(|s| s.render()).collect::<Vec<_>>(), d.step), d.step));
                            return v;
                        }
                    }
                    if j > 0 {
                        self.probe("failed_child_propagated_behind_unready_sources");
                    }
                }
            } else if listed_before {
                v.push(Violation::new("C05", "error-propagation", "killed-by-process-of-completed-select", format!("subject died with {err} while in select {k} {:?}; the process that failed with that error is listed only in an earlier select, which had completed", srcs.iter().map(|s| s.render()).collect::<Vec<_>>()), world.steps));
            } else {
                v.push(Violation::new("C05", "error-propagation", "subject-died-unexpectedly", format!("subject died with {err} while in select {k} {:?}, which lists no process that failed with that error", srcs.iter().map(|s| s.render()).collect::<Vec<_>>()), world.steps));
            }
        } else {
            // all selects accounted for?
            let judged: usize = turns.iter().map(|t| t.c_after - t.c_before).sum();
            if judged != self.total_selects() {
                v.push(Violation::new("HARNESS", "monitor", "missed-completions", format!("judged {judged} of {} selects", self.total_selects()), world.steps));
            }
        }
        v
    }

    fn probes(&self) -> BTreeMap<String, u64> {
        let mut p = self.probes.clone();
        for (k, v) in self.inner.probes() {
            *p.entry(k).or_insert(0) += v;
        }
        p
    }
}
