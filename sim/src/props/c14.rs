//! C14 — a resource is usable only by its single owner and is closed exactly once.
//! Oracle: a model of the documented ownership rules replayed over the recorded history
//! (events in the order the environment consumed them + calls the backend received).

use super::{Property, RefData, Scenario, Tier};
use crate::backend::{BackendOp, BackendRec};
use crate::client::{Client, ClientOp};
use crate::rng::Rng;
use crate::run::{EndState, Monitor, RunResult, Violation};
use crate::world::{Decision, StepOutcome, World};
use quiver_core::effects::Effect;
use quiver_core::value::Value;
use quiver_environment::{Command, Event};
use quiver_io::NativeEffect;
use std::collections::{BTreeMap, BTreeSet};

pub struct C14;

const USER: &str = "user = #['bin, 'int] { =[path, mode], f = [path, 577, 420] __file_open__, k = [f, 0, 0xaabb] __file_write__, mode { | =0 => f __file_close__ | =2 => [1, 0] __integer_divide__ | Ok }, k }";
const GIVER: &str = "giver = #[(@\\File), 'bin, 'int] { =[k, path, ua], f = [path, 577, 420] __file_open__, n = [f, 0, 0xaabbcc] __file_write__, x = f __file_flush__, f k, ua { | =1 => [f, 0, 2] __file_read__ __binary_length__ | =2 => [f, 0, 0x01] __file_write__ | =3 => { y = f __file_flush__, 0 } | =4 => { y = f __file_close__, 0 } | =5 => { f k, 0 } | n } }";
const KEEPER: &str = "keeper = #'int { =c, f = !#\\File, d = [f, 0, 4] __file_read__, c { | =1 => f __file_close__ | Ok }, d __binary_length__ }";
const KEEPT: &str = "keept = #{ !#[\\File, 'int] =[f, n], d = [f, 0, 4] __file_read__, [d __binary_length__, n] __integer_add__ }";
const CHILD: &str = "child = #\\File { =g, d = [g, 0, 4] __file_read__, d __binary_length__ }";
const KEEPFN: &str = "keepfn = #{ g = !#(#[] -> 'int), g }";
const LAZY: &str = "lazy = #{ ! [#('int | \\File) { ='int => Ok }], 0 }";
const IDLE: &str = "idle = #{ x = !'int, f = !#\\File, 0 }";
const TWO: &str = "two = #['bin, 'bin, 'int] { =[p1, p2, mode], f = [p1, 577, 420] __file_open__, g = [p2, 577, 420] __file_open__, a = [f, 0, 0x01] __file_write__, b = [g, 0, 0x0203] __file_write__, mode { | =0 => f __file_close__ | =2 => [1, 0] __integer_divide__ | Ok }, [a, b] __integer_add__ }";
const BOUNCER: &str = "bouncer = #{ !#[\\File, (@\\File)] =[f, to], f to, 7 }";
const SPG: &str = "spg = #['bin, 'int] { =[path, ua], f = [path, 577, 420] __file_open__, n = [f, 0, 0xaabbcc] __file_write__, c = f @child, ua { | =1 => [f, 0, 2] __file_read__ __binary_length__ | =2 => [f, 0, 0x01] __file_write__ | =3 => { y = f __file_close__, 0 } | [n, !c] __integer_add__ } }";
const SELFS: &str = "selfs = #['bin, 'int] { =[path, c], f = [path, 577, 420] __file_open__, w = [f, 0, 0x01020304] __file_write__, h = &., f h, g = !#\\File, d = [g, 0, 4] __file_read__, c { | =1 => g __file_close__ | Ok }, d __binary_length__ }";
const RESH: &str = "resh = #'bin { =path, f = [path, 577, 420] __file_open__, w = [f, 0, 0x0102] __file_write__, f }";
const PP: &str = "pp = #'bin { =path, b = @bouncer, f = [path, 577, 420] __file_open__, w = [f, 0, 0x0a0b0c] __file_write__, [f, &.] b, g = !#\\File, d = [g, 0, 8] __file_read__, d __binary_length__ }";

impl Property for C14 {
    fn id(&self) -> &'static str {
        "C14"
    }
    fn cases(&self, tier: Tier) -> usize {
        match tier {
            Tier::Quick => 800,
            Tier::Thorough => 3000,
        }
    }
    fn variants(&self, tier: Tier) -> usize {
        match tier {
            Tier::Quick => 36,
            Tier::Thorough => 200,
        }
    }
    fn rule_text(&self) -> &'static str {
        "cases: processes open files on the simulated backend, read/write/close, transfer handles (bare message, nested in a tuple, captured by a closure sent in a message, spawn argument, spawn capture), use or try to use them after giving them away, leave them in mailboxes of live and finished processes, terminate normally or by failure, awaited or not; backend faults (submit/completion errors, short I/O) and delayed/reordered async completions are injected per run. A model of the documented ownership rules is replayed over the recorded history after every environment turn. Non-trivial: >=2 workers, >=1 out-of-order handled message or injected fault, conclusive. Distinct = distinct (scenario shape, interleaving hash) pairs."
    }
    fn required_probes(&self) -> Vec<&'static str> {
        vec![
            "transfer_by_message_bare",
            "transfer_by_message_nested",
            "transfer_by_message_closure",
            "transfer_by_spawn",
            "non_owner_request_rejected",
            "auto_close_effective",
            "explicit_close",
            "owner_terminated_by_failure_resource_closed",
            "handle_in_mailbox_of_finished_process_closed",
            "second_resource_kind_used",
            "session_process_awaited_while_owning",
            "termination_reported_again_after_late_transfer",
            "socket_resources_used",
            "resource_created_by_operation_on_another",
            "ownership_returned_to_earlier_owner",
            "transfer_below_closure_top_level",
            "process_owning_two_resources_closed",
        ]
    }
    fn generate(&self, rng: &mut Rng, _tier: Tier) -> Scenario {
        if rng.chance(1, 12) {
            return repl_owner(rng);
        }
        let defs: Vec<String> = vec![USER.into(), GIVER.into(), KEEPER.into(), KEEPT.into(), CHILD.into(), KEEPFN.into(), LAZY.into(), IDLE.into(), TWO.into(), BOUNCER.into(), PP.into(), SELFS.into(), RESH.into(), SPG.into()];
        let mut h = crate::rng::Fnv::default();
        let mut lines: Vec<String> = Vec::new();
        let mut awaits: Vec<String> = Vec::new();
        let neps = 1 + rng.usize(4);
        let mut kinds = Vec::new();
        for k in 0..neps {
            let kind = rng.below(25);
            h.u64(kind);
            kinds.push(kind);
            let aw = |rng: &mut Rng, awaits: &mut Vec<String>, name: String| {
                if rng.chance(3, 4) {
                    awaits.push(name);
                }
            };
            match kind {
                24 => {
                    // a process uses its handle, passes it to a spawned child and at once uses it again
                    // (nothing else of its own in between): the second use must be refused although the
                    // very same request by the very same process had just been let through
                    let ua = rng.below(4);
                    h.u64(ua);
                    lines.push(format!("sg{k} = [\"/e{k}\" .0, {ua}] @spg"));
                    aw(rng, &mut awaits, format!("sg{k}"));
                }
                22 => {
                    // a process sends its handle to itself, takes it out of its mailbox and goes on
                    // using it: a transfer whose target is the owner
                    let c = rng.below(2);
                    h.u64(c);
                    lines.push(format!("ss{k} = [\"/e{k}\" .0, {c}] @selfs"));
                    aw(rng, &mut awaits, format!("ss{k}"));
                }
                23 => {
                    // a handle as a process RESULT: no transfer (results are not messages), so the
                    // resource is closed when its owner terminates and whoever got the stale handle
                    // from the result is refused
                    lines.push(format!("rh{k} = \"/e{k}\" .0 @resh"));
                    lines.push(format!("ru{k} = @{{ g = !rh{k}, d = [g, 0, 2] __file_read__, d __binary_length__ }}"));
                    aw(rng, &mut awaits, format!("ru{k}"));
                }
                20 | 21 => {
                    // loopback TCP: main listens, a client connects, the accepted connection - a resource
                    // created by an operation on another resource, possibly by a completion that arrives
                    // later - is handed to a handler (message or spawn argument), which echoes and finishes;
                    // the listener is closed, left open, or given to an acceptor process
                    let port = 8000 + k;
                    let mode = rng.below(3);
                    let lmode = rng.below(3);
                    h.u64(mode * 4 + lmode);
                    let handler_body = "d = [s, 8] __tcp_socket_read__, n = [s, d] __tcp_socket_write__, d __binary_length__";
                    lines.push(format!("l{k} = [{port}, 16] __tcp_listen__"));
                    lines.push(format!("cl{k} = @{{ s = [0x7f000001, {port}] __tcp_connect__, n = [s, 0x0a0b0c] __tcp_socket_write__, r = [s, 8] __tcp_socket_read__, r __binary_length__ }}"));
                    if kind == 21 {
                        // an acceptor process gets the listener and does the accepting itself
                        lines.push(format!("ac{k} = l{k} @#\\TcpListener {{ =ls, s = ls __tcp_listener_accept__, {handler_body} }}"));
                        aw(rng, &mut awaits, format!("ac{k}"));
                    } else {
                        match mode {
                            0 => {
                                lines.push(format!("hd{k} = @#{{ s = !#\\TcpSocket, {handler_body} }}"));
                                lines.push(format!("a{k} = l{k} __tcp_listener_accept__"));
                                lines.push(format!("a{k} hd{k}"));
                            }
                            1 => {
                                lines.push(format!("a{k} = l{k} __tcp_listener_accept__"));
                                lines.push(format!("hd{k} = a{k} @#\\TcpSocket {{ =s, {handler_body} }}"));
                            }
                            _ => {
                                // main serves the connection itself
                                lines.push(format!("a{k} = l{k} __tcp_listener_accept__"));
                                lines.push(format!("d{k} = [a{k}, 8] __tcp_socket_read__"));
                                lines.push(format!("n{k} = [a{k}, d{k}] __tcp_socket_write__"));
                                if rng.chance(1, 2) {
                                    lines.push(format!("x{k} = a{k} __tcp_socket_close__"));
                                }
                            }
                        }
                        if mode < 2 {
                            aw(rng, &mut awaits, format!("hd{k}"));
                        }
                        match lmode {
                            0 => lines.push(format!("y{k} = l{k} __tcp_listener_close__")),
                            _ => {}
                        }
                    }
                    aw(rng, &mut awaits, format!("cl{k}"));
                }
                19 => {
                    // a third kind of resource (a directory iterator, whose entries are composite effect
                    // results): kept and closed / left open by its opener, or handed to a reader
                    let mode = rng.below(3);
                    h.u64(mode);
                    lines.push(format!("fd{k} = [\"/dir{k}/x\" .0, 577, 420] __file_open__"));
                    match mode {
                        0 => lines.push(format!("dr{k} = @#{{ d = \"/dir{k}\" .0 __directory_read__, e = [d __directory_next__], c = d __directory_close__, 1 }}")),
                        1 => lines.push(format!("dr{k} = @#{{ d = \"/dir{k}\" .0 __directory_read__, e = [d __directory_next__], 1 }}")),
                        _ => {
                            lines.push(format!("rd{k} = @#{{ x = !#\\Dir, e = [x __directory_next__], 1 }}"));
                            lines.push(format!("dr{k} = &rd{k} @#(@\\Dir) {{ =kp, d = \"/dir{k}\" .0 __directory_read__, d kp, y = [d __directory_next__], 0 }}"));
                            aw(rng, &mut awaits, format!("rd{k}"));
                        }
                    }
                    aw(rng, &mut awaits, format!("dr{k}"));
                }
                18 => {
                    // a handle sent to a process that has finished and has already been awaited; then it is
                    // awaited again: that report comes after the transfer
                    lines.push(format!("e{k} = @#{{ x = ! [#\\File, 0], 0 }}"));
                    lines.push(format!("q{k}a = [! [e{k}, 400]]"));
                    lines.push(format!("f{k} = [\"/e{k}\" .0, 577, 420] __file_open__"));
                    lines.push(format!("f{k} e{k}"));
                    if rng.chance(1, 2) {
                        lines.push(format!("z{k} = [! [{}]]", *rng.pick(&[1u32, 10])));
                    }
                    lines.push(format!("q{k}b = [! [e{k}, 400]]"));
                }
                15 => {
                    // a second kind of resource (an address iterator): used, then closed / left open / the
                    // owner fails while it is open
                    let mode = rng.below(3);
                    h.u64(mode);
                    let tail = match mode {
                        0 => "c = r __dns_close__, a __binary_length__",
                        1 => "a __binary_length__",
                        _ => "[a __binary_length__, 0] __integer_divide__",
                    };
                    lines.push(format!("d{k} = @#{{ r = \"host{k}\" .0 __dns_resolve__, a = r __dns_next__, {tail} }}"));
                    aw(rng, &mut awaits, format!("d{k}"));
                }
                16 => {
                    // resolver handed to a keeper; the giver then does nothing, reads it or closes it (refused)
                    let ua = rng.below(3);
                    h.u64(ua);
                    let after = match ua {
                        0 => "0",
                        1 => "x = [r __dns_next__], 0",
                        _ => "x = r __dns_close__, 0",
                    };
                    lines.push(format!("kd{k} = @#{{ x = !#\\DnsResolver, a = x __dns_next__, b = x __dns_next__, [a __binary_length__, b __binary_length__] __integer_add__ }}"));
                    lines.push(format!("gd{k} = &kd{k} @#(@\\DnsResolver) {{ =kp, r = \"give{k}\" .0 __dns_resolve__, a = r __dns_next__, r kp, {after} }}"));
                    aw(rng, &mut awaits, format!("kd{k}"));
                    aw(rng, &mut awaits, format!("gd{k}"));
                }
                17 => {
                    // a file and a resolver in one message
                    lines.push(format!("t{k} = @#{{ !#[\\File, \\DnsResolver] =[f, r], d = [f, 0, 4] __file_read__, a = r __dns_next__, [d __binary_length__, a __binary_length__] __integer_add__ }}"));
                    lines.push(format!("f{k} = [\"/e{k}\" .0, 577, 420] __file_open__"));
                    lines.push(format!("w{k} = [f{k}, 0, 0x01020304] __file_write__"));
                    lines.push(format!("r{k}d = \"pair{k}\" .0 __dns_resolve__"));
                    lines.push(format!("[f{k}, r{k}d] t{k}"));
                    aw(rng, &mut awaits, format!("t{k}"));
                }
                14 => {
                    // a slow owner: opens a file, then waits for a go message that a timer process sends
                    // later; main gives up on it after a short timeout and may have finished long before the
                    // owner does (its completion is then reported for an awaiter that is already gone)
                    let t = *rng.pick(&[20u32, 150]);
                    h.u64(t as u64);
                    lines.push(format!("c{k} = @#{{ f = [\"/e{k}\" .0, 577, 420] __file_open__, w = [f, 0, 0x0102] __file_write__, g = !'int, g }}"));
                    lines.push(format!("t{k} = &c{k} @#(@'int) {{ =p, z = ! [{t}], 1 p }}"));
                    lines.push(format!("q{k} = [! [c{k}, {}]]", *rng.pick(&[0u32, 5])));
                }
                0 => {
                    let mode = rng.below(3);
                    h.u64(mode);
                    lines.push(format!("u{k} = [\"/e{k}\" .0, {mode}] @user"));
                    aw(rng, &mut awaits, format!("u{k}"));
                }
                1 => {
                    let c = rng.below(2);
                    // what the giver does with the handle after giving it away: nothing, read, write,
                    // flush, close (all must be refused), or send it a second time
                    let ua = *rng.pick(&[0u64, 0, 1, 2, 3, 4, 5]);
                    h.u64(c * 8 + ua);
                    lines.push(format!("k{k} = {c} @keeper"));
                    lines.push(format!("g{k} = [&k{k}, \"/e{k}\" .0, {ua}] @giver"));
                    aw(rng, &mut awaits, format!("k{k}"));
                    aw(rng, &mut awaits, format!("g{k}"));
                }
                2 => {
                    lines.push(format!("t{k} = @keept"));
                    lines.push(format!("f{k} = [\"/e{k}\" .0, 577, 420] __file_open__"));
                    lines.push(format!("w{k} = [f{k}, 0, 0x01020304] __file_write__"));
                    lines.push(format!("[f{k}, 10] t{k}"));
                    aw(rng, &mut awaits, format!("t{k}"));
                }
                3 => {
                    lines.push(format!("f{k} = [\"/e{k}\" .0, 577, 420] __file_open__"));
                    lines.push(format!("w{k} = [f{k}, 0, 0x0102] __file_write__"));
                    lines.push(format!("c{k} = f{k} @child"));
                    aw(rng, &mut awaits, format!("c{k}"));
                }
                4 => {
                    lines.push(format!("f{k} = [\"/e{k}\" .0, 577, 420] __file_open__"));
                    lines.push(format!("w{k} = [f{k}, 0, 0x010203] __file_write__"));
                    lines.push(format!("c{k} = @{{ d = [f{k}, 0, 4] __file_read__, d __binary_length__ }}"));
                    aw(rng, &mut awaits, format!("c{k}"));
                }
                5 => {
                    lines.push(format!("q{k} = @keepfn"));
                    lines.push(format!("f{k} = [\"/e{k}\" .0, 577, 420] __file_open__"));
                    lines.push(format!("w{k} = [f{k}, 0, 0x0102030405] __file_write__"));
                    lines.push(format!("h{k} = #{{ d = [f{k}, 0, 9] __file_read__, d __binary_length__ }}"));
                    lines.push(format!("&h{k} q{k}"));
                    aw(rng, &mut awaits, format!("q{k}"));
                }
                6 => {
                    lines.push(format!("l{k} = @lazy"));
                    lines.push(format!("f{k} = [\"/e{k}\" .0, 577, 420] __file_open__"));
                    lines.push(format!("f{k} l{k}"));
                    lines.push(format!("1 l{k}"));
                    aw(rng, &mut awaits, format!("l{k}"));
                }
                7 => {
                    // handle parked in the mailbox of a process that stays alive
                    lines.push(format!("i{k} = @idle"));
                    lines.push(format!("f{k} = [\"/e{k}\" .0, 577, 420] __file_open__"));
                    lines.push(format!("f{k} i{k}"));
                }
                8 => {
                    // two resources owned by one process
                    let mode = rng.below(3);
                    h.u64(mode);
                    lines.push(format!("d{k} = [\"/e{k}a\" .0, \"/e{k}b\" .0, {mode}] @two"));
                    aw(rng, &mut awaits, format!("d{k}"));
                    // sometimes awaited twice (the second report finds the resources already cleaned up)
                    if rng.chance(1, 3) {
                        awaits.push(format!("d{k}"));
                    }
                }
                9 => {
                    // a handle sent away and sent back
                    lines.push(format!("b{k} = \"/e{k}\" .0 @pp"));
                    aw(rng, &mut awaits, format!("b{k}"));
                }
                11 => {
                    // closure -> tuple -> handle, sent in a message
                    lines.push(format!("q{k} = @keepfn"));
                    lines.push(format!("f{k} = [\"/e{k}\" .0, 577, 420] __file_open__"));
                    lines.push(format!("w{k} = [f{k}, 0, 0x0102030405] __file_write__"));
                    lines.push(format!("sp{k} = [f{k}, 9]"));
                    lines.push(format!("h{k} = #{{ sp{k} =[q, n], d = [q, 0, n] __file_read__, d __binary_length__ }}"));
                    lines.push(format!("&h{k} q{k}"));
                    aw(rng, &mut awaits, format!("q{k}"));
                }
                12 => {
                    // closure -> closure -> handle, sent in a message
                    lines.push(format!("q{k} = @keepfn"));
                    lines.push(format!("f{k} = [\"/e{k}\" .0, 577, 420] __file_open__"));
                    lines.push(format!("w{k} = [f{k}, 0, 0x0102030405] __file_write__"));
                    lines.push(format!("in{k} = #{{ d = [f{k}, 0, 9] __file_read__, d __binary_length__ }}"));
                    lines.push(format!("h{k} = #{{ in{k} }}"));
                    lines.push(format!("&h{k} q{k}"));
                    aw(rng, &mut awaits, format!("q{k}"));
                }
                13 => {
                    // closure -> tuple -> handle, as a spawn capture
                    lines.push(format!("f{k} = [\"/e{k}\" .0, 577, 420] __file_open__"));
                    lines.push(format!("w{k} = [f{k}, 0, 0x010203] __file_write__"));
                    lines.push(format!("sp{k} = [f{k}, 9]"));
                    lines.push(format!("h{k} = #{{ sp{k} =[q, n], d = [q, 0, n] __file_read__, d __binary_length__ }}"));
                    lines.push(format!("c{k} = @{{ h{k} }}"));
                    aw(rng, &mut awaits, format!("c{k}"));
                }
                _ => {
                    // spawn with a handle in a capture AND a handle as the argument
                    lines.push(format!("f{k} = [\"/e{k}x\" .0, 577, 420] __file_open__"));
                    lines.push(format!("g{k} = [\"/e{k}y\" .0, 577, 420] __file_open__"));
                    lines.push(format!("w{k} = [f{k}, 0, 0x01] __file_write__"));
                    lines.push(format!("v{k} = [g{k}, 0, 0x0203] __file_write__"));
                    lines.push(format!("c{k} = g{k} @#\\File {{ =h, a = [f{k}, 0, 4] __file_read__, b = [h, 0, 4] __file_read__, [a __binary_length__, b __binary_length__] __integer_add__ }}"));
                    aw(rng, &mut awaits, format!("c{k}"));
                }
            }
        }
        // main may try to use a handle it gave away (kills main) as its last act
        let use_after = rng.chance(1, 5);
        rng.shuffle(&mut awaits);
        for (i, a) in awaits.iter().enumerate() {
            lines.push(format!("r{i} = ! [{a}, 400]"));
        }
        if use_after && let Some((k, _)) = kinds.iter().enumerate().find(|(_, kd)| matches!(**kd, 2 | 3 | 6 | 7 | 10 | 11 | 12 | 13 | 17 | 18)) {
            lines.push(format!("z = [f{k}, 0, 1] __file_read__"));
            h.u64(0xdead);
        }
        lines.push("0".to_string());
        let main_awaited = rng.below(4);
        h.u64(main_awaited);
        let tail = match main_awaited {
            0 => "z = ! [600], 0".to_string(),
            1 => "r = ! [m, 3000], 0".to_string(),
            _ => "r = ! [m, 3000], z = ! [50], 0".to_string(),
        };
        let src = format!("{}, m = @{{ {} }}, {}", defs.join(", "), lines.join(", "), tail);
        Scenario {
            family: format!("c14-{}ep", neps),
            ops: vec![ClientOp::Line { session: 0, src }],
            modules: vec![],
            files: Default::default(),
            timing: true,
            io: true,
            fixed_faults: Default::default(),
            expect: serde_json::json!({ "episodes": kinds }),
            shape: h.0,
            est_len: 100,
            min_quantum: 0,
        }
    }
    fn monitor(&self, _scn: &Scenario) -> Box<dyn Monitor + Send> {
        Box::new(ResMonitor::default())
    }
    fn pinned(&self) -> Vec<super::Pinned> {
        // an owner that terminates without ever being awaited
        let src = format!("{USER}, u = [\"/pinned\" .0, 1] @user, z = ! [50], 0");
        let scenario = Scenario {
            family: "c14-pinned-never-awaited".into(),
            ops: vec![ClientOp::Line { session: 0, src }],
            modules: vec![],
            files: Default::default(),
            timing: true,
            io: true,
            fixed_faults: Default::default(),
            expect: serde_json::json!({}),
            shape: 1,
            est_len: 60,
            min_quantum: 0,
        };
        let spec = super::reference_spec(&scenario, 1);
        vec![super::Pinned { key: "C14/never-closed/owner-never-awaited", what: "owner terminates without being awaited", scenario, spec }]
    }
    fn judge(&self, _scn: &Scenario, _refdata: Option<&RefData>, _r: &RunResult) -> Vec<Violation> {
        Vec::new()
    }
}

/// The session's own (persistent) process owns a file across lines while other processes await the
/// session process, are awaited by it, or receive the handle: the process sleeps between lines, it has
/// not terminated, and its file must stay open and usable until the handle is given away.
fn repl_owner(rng: &mut Rng) -> Scenario {
    let mut ops = vec![ClientOp::Line { session: 0, src: format!("{}, {KEEPER}, f = [\"/repl\" .0, 577, 420] __file_open__, w0 = [f, 0, 0x01020304] __file_write__", super::c04::SPIN) }];
    let mut h = crate::rng::Fnv::default();
    h.u64(0x7e91);
    let n = 1 + rng.usize(3);
    for i in 0..n {
        let k = rng.below(4);
        h.u64(k);
        let line = match k {
            // somebody awaits the sleeping session process (`@!` = the session's own process id)
            0 | 1 => format!("aw{i} = @{{ !@! }}, Ok"),
            // the session awaits a child that finishes
            2 => format!("c{i} = @{{ {} }}, !c{i}", rng.range(1, 9)),
            _ => format!("z{i} = ! [{}], Ok", *rng.pick(&[0u32, 5, 40])),
        };
        ops.push(ClientOp::Line { session: 0, src: line });
        ops.push(ClientOp::Line { session: 0, src: format!("d{i} = [f, 0, {}] __file_read__, d{i} __binary_length__", 1 + rng.usize(4)) });
    }
    match rng.below(3) {
        0 => {
            // finally the handle goes to a keeper, which reads it and finishes (closing it)
            ops.push(ClientOp::Line { session: 0, src: "k = 0 @keeper, f k, !k".to_string() });
            h.u64(0xfe);
        }
        1 => {
            // or the session FAILS while it still owns the file, and a child awaits it afterwards: a
            // persistent process that has failed is dead for good (it is never resumed), so its
            // resources are closed when the failure is reported
            ops.push(ClientOp::Line { session: 0, src: format!("wq = @{{ z = ! [{}], !@! }}, w = [{}, 0] spin, [1, 0] __integer_divide__", *rng.pick(&[30u32, 120, 400]), *rng.pick(&[0u32, 20, 200])) });
            // a second session lets the awaiter's sleep run out and the report arrive
            ops.push(ClientOp::Line { session: 1, src: "z = ! [900], Ok".to_string() });
            h.u64(0xfd);
        }
        _ => {}
    }
    Scenario {
        family: "c14-repl-owner".into(),
        ops,
        modules: vec![],
        files: Default::default(),
        timing: true,
        // (no random backend faults here: a failed line ends the session and with it the scenario)
        io: false,
        fixed_faults: Default::default(),
        expect: serde_json::json!({}),
        shape: h.0,
        est_len: 150,
        min_quantum: 0,
    }
}

#[derive(Default)]
pub struct ResMonitor {
    owner: BTreeMap<usize, usize>,
    open: BTreeSet<usize>,
    /// resources whose handle was delivered to a process already reported as terminated (statement silent)
    silent: BTreeSet<usize>,
    hist_pos: usize,
    reported: BTreeSet<usize>,
    /// processes named as a target in some await query the environment consumed
    awaited: BTreeSet<usize>,
    rejected: BTreeMap<usize, u32>,
    probes: BTreeMap<String, u64>,
    failed_owner_closed: BTreeSet<usize>,
    past_owners: BTreeMap<usize, Vec<usize>>,
    closed_by_owner: BTreeMap<usize, u32>,
    /// resources whose current owner got them in a message and has not operated on them since
    unused_since_message: BTreeSet<usize>,
}

fn resources_in(v: &Value, depth: u8, out: &mut Vec<(usize, u8)>) {
    // depth marker: 0 bare, 1 inside tuple, 2 directly captured by a closure, 3 deeper below a closure
    match v {
        Value::Resource(r, _) => out.push((*r, depth)),
        Value::Tuple(_, fs) => {
            for f in fs.iter() {
                resources_in(f, if depth >= 2 { 3 } else { depth.max(1) }, out);
            }
        }
        Value::Function(_, caps) => {
            for c in caps.iter() {
                resources_in(c, if depth >= 2 { 3 } else { 2 }, out);
            }
        }
        _ => {}
    }
}

/// The resource an effect operates on, read off the effect itself (not through `Effect::resource_id`,
/// which is part of what is being checked).
fn rid_of(e: &NativeEffect) -> Option<quiver_core::value::ResourceId> {
    match e {
        NativeEffect::FileOpen { .. } | NativeEffect::DnsResolve { .. } | NativeEffect::ReadDirOpen { .. } | NativeEffect::Stat { .. } | NativeEffect::TcpListen { .. } | NativeEffect::TcpConnect { .. } => None,
        NativeEffect::FileRead { resource_id, .. }
        | NativeEffect::FileWrite { resource_id, .. }
        | NativeEffect::FileFlush { resource_id }
        | NativeEffect::FileClose { resource_id }
        | NativeEffect::DnsNext { resource_id }
        | NativeEffect::DnsClose { resource_id }
        | NativeEffect::ReadDirNext { resource_id }
        | NativeEffect::ReadDirClose { resource_id }
        | NativeEffect::TcpListenerAccept { resource_id }
        | NativeEffect::TcpListenerClose { resource_id }
        | NativeEffect::TcpSocketRead { resource_id, .. }
        | NativeEffect::TcpSocketWrite { resource_id, .. }
        | NativeEffect::TcpSocketClose { resource_id } => Some(*resource_id),
        other => other.resource_id(),
    }
}

fn op_matches(op: &BackendOp, e: &NativeEffect) -> bool {
    match (op, e) {
        (BackendOp::Open { .. }, NativeEffect::FileOpen { .. }) => true,
        (BackendOp::Read { rid }, NativeEffect::FileRead { resource_id, .. }) => rid == resource_id,
        (BackendOp::Write { rid, .. }, NativeEffect::FileWrite { resource_id, .. }) => rid == resource_id,
        (BackendOp::Flush { rid }, NativeEffect::FileFlush { resource_id }) => rid == resource_id,
        (BackendOp::Close { rid }, NativeEffect::FileClose { resource_id }) => rid == resource_id,
        (BackendOp::Open { .. }, NativeEffect::DnsResolve { .. } | NativeEffect::ReadDirOpen { .. } | NativeEffect::TcpListen { .. } | NativeEffect::TcpConnect { .. }) => true,
        (BackendOp::Read { rid }, NativeEffect::TcpListenerAccept { resource_id } | NativeEffect::TcpSocketRead { resource_id, .. }) => rid == resource_id,
        (BackendOp::Write { rid, .. }, NativeEffect::TcpSocketWrite { resource_id, .. }) => rid == resource_id,
        (BackendOp::Close { rid }, NativeEffect::TcpListenerClose { resource_id } | NativeEffect::TcpSocketClose { resource_id }) => rid == resource_id,
        (BackendOp::Read { rid }, NativeEffect::ReadDirNext { resource_id }) => rid == resource_id,
        (BackendOp::Close { rid }, NativeEffect::ReadDirClose { resource_id }) => rid == resource_id,
        (BackendOp::Read { rid }, NativeEffect::DnsNext { resource_id }) => rid == resource_id,
        (BackendOp::Close { rid }, NativeEffect::DnsClose { resource_id }) => rid == resource_id,
        (BackendOp::Other, _) => true,
        _ => false,
    }
}

impl ResMonitor {
    fn probe(&mut self, k: &str) {
        *self.probes.entry(k.to_string()).or_insert(0) += 1;
    }
    /// A process has terminated when it has a result - except a persistent one (the REPL's, a run-path
    /// entry process), which merely sleeps with a successful result and is resumed by the next line.
    fn terminated(world: &World, pid: usize) -> bool {
        world.worker_of(pid).is_some_and(|w| world.workers[w].verif_executor().get_process(pid).is_some_and(|p| match &p.result {
            None => false,
            Some(Ok(_)) => !p.persistent,
            Some(Err(_)) => true,
        }))
    }
    fn failed(world: &World, pid: usize) -> bool {
        world.worker_of(pid).is_some_and(|w| world.workers[w].verif_executor().get_process(pid).is_some_and(|p| matches!(p.result, Some(Err(_)))))
    }
    fn auto_close(&mut self, world: &World, rec: &BackendRec) -> Option<Violation> {
        let BackendRec::AutoClose { rid, was_open, .. } = rec else { return None };
        if !*was_open {
            return None;
        }
        let owner = self.owner.get(rid).copied();
        if let Some(o) = owner
            && !Self::terminated(world, o)
        {
            return Some(Violation::new("C14", "closed-while-owner-alive", "auto-close", format!("resource {rid} was closed by the environment while its owner, process {o}, is still alive"), world.steps));
        }
        self.open.remove(rid);
        self.probe("auto_close_effective");
        if let Some(o) = owner {
            let n = self.closed_by_owner.entry(o).or_insert(0);
            *n += 1;
            if *n == 2 {
                self.probe("process_owning_two_resources_closed");
            }
        }
        if let Some(o) = owner {
            if Self::failed(world, o) && self.failed_owner_closed.insert(*rid) {
                self.probe("owner_terminated_by_failure_resource_closed");
            }
            // (judged from the history: since terminated processes discard their mailboxes the handle
            // can no longer be seen lying there)
            if self.unused_since_message.remove(rid) {
                self.probe("handle_in_mailbox_of_finished_process_closed");
            }
        }
        None
    }
    fn transfer(&mut self, world: &World, v: &Value, to: usize, how: &str) {
        let mut rs = Vec::new();
        resources_in(v, 0, &mut rs);
        for (r, depth) in rs {
            if !self.open.contains(&r) {
                continue;
            }
            if self.reported.contains(&to) {
                // delivered to a process whose termination was already reported: the statement is silent
                self.silent.insert(r);
                self.probe("handle_delivered_to_already_reported_process_not_judged");
            }
            if self.past_owners.get(&r).is_some_and(|v| v.contains(&to)) {
                self.probe("ownership_returned_to_earlier_owner");
            }
            if let Some(prev) = self.owner.get(&r).copied() {
                self.past_owners.entry(r).or_default().push(prev);
            }
            self.owner.insert(r, to);
            let _ = world;
            if how == "spawn" {
                self.unused_since_message.remove(&r);
            } else {
                self.unused_since_message.insert(r);
            }
            if how == "spawn" {
                self.probe("transfer_by_spawn");
                if depth >= 3 {
                    self.probe("transfer_below_closure_top_level");
                }
            } else {
                match depth {
                    0 => self.probe("transfer_by_message_bare"),
                    1 => self.probe("transfer_by_message_nested"),
                    2 => self.probe("transfer_by_message_closure"),
                    _ => self.probe("transfer_below_closure_top_level"),
                }
            }
        }
    }
}

impl Monitor for ResMonitor {
    fn after(&mut self, world: &World, _client: &Client, _d: &Decision, out: &StepOutcome) -> Option<Violation> {
        if out.actor != 0 || world.dead {
            return None;
        }
        let sh = world.sh.lock().unwrap();
        let evts: Vec<Event<crate::transport::E>> = sh.cur_recv.iter().filter_map(|id| sh.evt(*id).cloned()).collect();
        let spawned: Vec<usize> = sh.cur_sent.iter().filter_map(|id| match sh.cmd(*id) { Some(Command::SpawnProcess { id, .. }) => Some(*id), _ => None }).collect();
        drop(sh);
        let b = world.backend.lock().unwrap();
        let recs: Vec<BackendRec> = b.history[self.hist_pos..].to_vec();
        self.hist_pos = b.history.len();
        drop(b);
        // a resource that comes into being with a completion (an accepted connection) belongs to the
        // process the completion is for
        for r in &recs {
            if let BackendRec::Completed { pid, new_rid: Some(n), .. } = r
                && !self.owner.contains_key(n)
            {
                self.owner.insert(*n, *pid);
                self.open.insert(*n);
                self.probe("resource_created_by_completion");
            }
        }
        let mut q: std::collections::VecDeque<&BackendRec> = recs.iter().filter(|r| !matches!(r, BackendRec::Completed { .. })).collect();
        let mut spawn_i = 0;
        for e in &evts {
            match e {
                Event::DeliverAction { target, message, .. } => self.transfer(world, message, *target, "message"),
                Event::SpawnAction { captures, argument, .. } => {
                    if let Some(new_pid) = spawned.get(spawn_i).copied() {
                        spawn_i += 1;
                        for c in captures {
                            self.transfer(world, c, new_pid, "spawn");
                        }
                        self.transfer(world, argument, new_pid, "spawn");
                    }
                }
                Event::AwaitAction { targets, .. } => {
                    self.awaited.extend(targets.iter().copied());
                    if targets.iter().any(|t| self.owner.iter().any(|(r, o)| o == t && self.open.contains(r)) && world.worker_of(*t).is_some_and(|w| world.workers[w].verif_executor().get_process(*t).is_some_and(|p| p.persistent))) {
                        self.probe("session_process_awaited_while_owning");
                    }
                }
                Event::ProcessResults { results, .. } => {
                    for (pid, r) in results {
                        if r.is_some() {
                            self.reported.insert(*pid);
                            // a handle that reached this process after an earlier report of its termination
                            // was nobody's business then; this report comes after the transfer, so the
                            // environment has been told (again) that the owner is gone
                            let again: Vec<usize> = self.silent.iter().copied().filter(|r| self.owner.get(r) == Some(pid)).collect();
                            for r in again {
                                self.silent.remove(&r);
                                self.probe("termination_reported_again_after_late_transfer");
                            }
                        }
                    }
                    // the automatic cleanup triggered by this report
                    while let Some(BackendRec::AutoClose { .. }) = q.front() {
                        let rec = q.pop_front().unwrap();
                        if let Some(v) = self.auto_close(world, rec) {
                            return Some(v);
                        }
                    }
                }
                Event::EffectRequest { process_id, effect } => {
                    if matches!(effect, NativeEffect::TcpListen { .. } | NativeEffect::TcpConnect { .. } | NativeEffect::TcpListenerAccept { .. } | NativeEffect::TcpSocketRead { .. } | NativeEffect::TcpSocketWrite { .. }) {
                        self.probe("socket_resources_used");
                    }
                    if matches!(effect, NativeEffect::DnsResolve { .. } | NativeEffect::DnsNext { .. } | NativeEffect::DnsClose { .. } | NativeEffect::ReadDirOpen { .. } | NativeEffect::ReadDirNext { .. } | NativeEffect::ReadDirClose { .. }) {
                        self.probe("second_resource_kind_used");
                    }
                    let rid = rid_of(effect);
                    let matches_next = q.front().is_some_and(|r| matches!(r, BackendRec::Execute { pid, op, .. } if pid == process_id && op_matches(op, effect)));
                    match rid {
                        Some(r) if self.open.contains(&r) => {
                            let owner = self.owner.get(&r).copied();
                            if owner != Some(*process_id) {
                                if matches_next {
                                    return Some(Violation::new("C14", "exclusive-use", "non-owner-reached-backend", format!("process {process_id} operated on open resource {r} owned by {:?} and the request reached the backend: {:?}", owner, effect), world.steps));
                                }
                                *self.rejected.entry(*process_id).or_insert(0) += 1;
                                self.probe("non_owner_request_rejected");
                            } else {
                                if !matches_next {
                                    return Some(Violation::new("C14", "exclusive-use", "owner-rejected", format!("process {process_id} owns open resource {r} but its request {:?} did not reach the backend", effect), world.steps));
                                }
                                let rec = q.pop_front().unwrap();
                                self.unused_since_message.remove(&r);
                                if let BackendRec::Execute { op: BackendOp::Close { .. }, outcome, .. } = rec
                                    && outcome == "ok"
                                {
                                    self.open.remove(&r);
                                    self.probe("explicit_close");
                                }
                                // an operation on one resource that yields another (accept)
                                if let BackendRec::Execute { new_rid: Some(n), .. } = rec {
                                    self.owner.insert(*n, *process_id);
                                    self.open.insert(*n);
                                    self.probe("resource_created_by_operation_on_another");
                                }
                            }
                        }
                        _ => {
                            // creating effect, or an operation on a resource that is not open (not judged)
                            if matches_next {
                                let rec = q.pop_front().unwrap();
                                if let BackendRec::Execute { new_rid: Some(n), .. } = rec {
                                    self.owner.insert(*n, *process_id);
                                    self.open.insert(*n);
                                }
                            } else if rid.is_none() {
                                return Some(Violation::new("C14", "exclusive-use", "creating-effect-dropped", format!("resource-creating request {:?} of process {process_id} did not reach the backend", effect), world.steps));
                            }
                        }
                    }
                }
                _ => {}
            }
        }
        if let Some(extra) = q.front() {
            return Some(Violation::new("C14", "exclusive-use", "backend-call-without-request", format!("the backend received {:?} which matches no request or report handled in this turn", extra), world.steps));
        }
        // M-own: the environment's table agrees with the model for every open resource
        let table: BTreeMap<usize, usize> = world.env.verif_resource_ownership().into_iter().collect();
        for r in &self.open {
            let m = self.owner.get(r).copied();
            let t = table.get(r).copied();
            if m != t {
                return Some(Violation::new("C14", "single-owner", "ownership-table-diverged", format!("open resource {r}: the documented rules make process {:?} its owner, the environment's table says {:?}", m, t), world.steps));
            }
        }
        None
    }

    fn at_end(&mut self, world: &World, _client: &Client, end: &EndState) -> Vec<Violation> {
        let mut v = Vec::new();
        if !matches!(end, EndState::Completed | EndState::Hang) || world.dead {
            return v;
        }
        for r in self.open.clone() {
            if self.silent.contains(&r) {
                continue;
            }
            let Some(o) = self.owner.get(&r).copied() else { continue };
            if Self::terminated(world, o) {
                // (a persistent process - the REPL's - that sleeps between lines is not terminated, see
                // `terminated`; one that has FAILED is: it is never resumed)
                // never awaited at all (the known finding), awaited but its completion never reported to the
                // environment, or reported and still not closed
                let cause = if self.reported.contains(&o) {
                    "owner-reported-not-closed"
                } else if self.awaited.contains(&o) {
                    "owner-awaited-but-completion-never-reported"
                } else {
                    "owner-never-awaited"
                };
                self.probe("owner_never_awaited_resource_left_open");
                v.push(Violation::new("C14", "never-closed", cause, format!("at quiescence resource {r} is still open although its owner, process {o} ({}), has terminated", world.pid_names.get(&o).cloned().unwrap_or_default()), world.steps));
                break;
            }
        }
        for (pid, n) in &self.rejected {
            if !Self::failed(world, *pid) && Self::terminated(world, *pid) {
                v.push(Violation::new("C14", "exclusive-use", "non-owner-no-error", format!("process {pid} had {n} request(s) rejected for lack of ownership but did not end with a runtime error"), world.steps));
            }
        }
        v
    }

    fn probes(&self) -> BTreeMap<String, u64> {
        self.probes.clone()
    }
}
