//! C13 — equality is structural and construction-independent; refs are unique.
//! Scope: placement, crossing process/worker boundaries, program updates over time; different
//! syntactic construction paths ride along as workload variety.

use super::{Property, RefData, Scenario, Tier};
use crate::client::{ClientOp, Out};
use crate::rng::Rng;
use crate::run::{Monitor, NoMonitor, RunResult, Violation};

pub struct C13;

struct Fam {
    key: &'static str,
    ty: &'static str,
    exprs: &'static [&'static str],
    tuple: bool,
    /// field in the `vals` module record holding an equal value, if any
    module_field: Option<&'static str>,
}

impl Fam {
    /// function values: compared by identity of definition and equality of captured values
    fn func(&self) -> bool {
        self.key.starts_with("fn:")
    }
}

const FAMS: &[Fam] = &[
    Fam { key: "int:5", ty: "'int", exprs: &["5", "[2, 3] __integer_add__", "[10, 2] __integer_divide__", "5 idg", "[5, 3] fst"], tuple: false, module_field: Some("i") },
    Fam { key: "int:6", ty: "'int", exprs: &["6", "[2, 4] __integer_add__"], tuple: false, module_field: None },
    Fam { key: "int:big", ty: "'int", exprs: &["99999999999999999999", "[99999999999999999998, 1] __integer_add__"], tuple: false, module_field: None },
    Fam { key: "bin:0102", ty: "'bin", exprs: &["0x0102", "[0x01, 0x02] __binary_concat__", "[0x010203, 0, 2] __binary_slice__", "[[0x01, 0x02] __binary_concat__, 3] fst"], tuple: false, module_field: Some("b") },
    Fam { key: "bin:0103", ty: "'bin", exprs: &["0x0103", "[0x01, 0x03] __binary_concat__"], tuple: false, module_field: None },
    // the same bytes as tilings of different unit length, as zero-fill, as literal, as concat
    Fam { key: "bin:abx4", ty: "'bin", exprs: &["0xabababab", "[0xab, 4] __binary_repeat__", "[0xabab, 2] __binary_repeat__", "[0xabab, 0xabab] __binary_concat__", "[[0xab, 2] __binary_repeat__, 2] __binary_repeat__"], tuple: false, module_field: None },
    Fam { key: "bin:abx6", ty: "'bin", exprs: &["[0xab, 6] __binary_repeat__", "[0xababab, 2] __binary_repeat__", "[0xabab, 3] __binary_repeat__"], tuple: false, module_field: None },
    Fam { key: "bin:zero4", ty: "'bin", exprs: &["0x00000000", "4 __binary_new__", "[0x00, 4] __binary_repeat__", "[0x0000, 2] __binary_repeat__", "[2 __binary_new__, 2] __binary_repeat__"], tuple: false, module_field: None },
    // long binaries (a comparison of these is worth caching, and a cache can go stale): equal bytes in
    // distinct slots, and a near miss of the same length
    Fam { key: "bin:ab70", ty: "'bin", exprs: &["[0xab, 70] __binary_repeat__", "[[0xab, 35] __binary_repeat__, [0xab, 35] __binary_repeat__] __binary_concat__", "[[0xab, 71] __binary_repeat__, 0, 70] __binary_slice__"], tuple: false, module_field: None },
    Fam { key: "bin:ab69cd", ty: "'bin", exprs: &["[[0xab, 69] __binary_repeat__, 0xcd] __binary_concat__", "[[[0xab, 69] __binary_repeat__, 0xcdef] __binary_concat__, 0, 70] __binary_slice__"], tuple: false, module_field: None },
    Fam { key: "bin:empty", ty: "'bin", exprs: &["0x", "[0x01, 0, 0] __binary_slice__"], tuple: false, module_field: None },
    Fam { key: "P{x:1,y:0102}", ty: "P[x: 'int, y: 'bin]", exprs: &["P[x: 1, y: 0x0102]", "P[x: [0, 1] __integer_add__, y: [0x01, 0x02] __binary_concat__]", "P[x: 1 wd, y: 0x0102]", "P[x: 9, y: 0x0102] ~[..., x: 1]", "[x: 1] P[..., y: 0x0102]", "P[x: 1, y: 0x0102] idg", "[P[x: 1, y: [0x01, 0x02] __binary_concat__], 3] fst"], tuple: true, module_field: Some("p") },
    Fam { key: "P{x:2,y:0102}", ty: "P[x: 'int, y: 'bin]", exprs: &["P[x: 2, y: 0x0102]", "P[x: [1, 1] __integer_add__, y: 0x0102]", "P[x: 2 wd, y: 0x0102]"], tuple: true, module_field: None },
    Fam { key: "Q{x:1,y:0102}", ty: "Q[x: 'int, y: 'bin]", exprs: &["Q[x: 1, y: 0x0102]", "Q[x: 1, y: [0x01, 0x02] __binary_concat__]", "Q[x: 1 wd, y: 0x0102]"], tuple: true, module_field: None },
    Fam { key: "{x:1,y:0102}", ty: "[x: 'int, y: 'bin]", exprs: &["[x: 1, y: 0x0102]", "[x: [0, 1] __integer_add__, y: [0x01, 0x02] __binary_concat__]", "[x: 1 wd, y: 0x0102]", "P[x: 1, y: 0x0102] [...]", "[x: 1, y: 0x0102] idg"], tuple: true, module_field: Some("u") },
    Fam { key: "{a:1,b:0102}", ty: "[a: 'int, b: 'bin]", exprs: &["[a: 1, b: 0x0102]", "[a: 1, b: [0x01, 0x02] __binary_concat__]"], tuple: true, module_field: None },
    // one name, one arity, the same label at different positions among unlabelled fields
    Fam { key: "{a:1,_:1}", ty: "[a: 'int, 'int]", exprs: &["[a: 1, 1]", "[a: [0, 1] __integer_add__, 1]", "[a: 1, 1] idg"], tuple: true, module_field: None },
    Fam { key: "{_:1,a:1}", ty: "['int, a: 'int]", exprs: &["[1, a: 1]", "[1, a: [0, 1] __integer_add__]", "[1, a: 1] idg"], tuple: true, module_field: None },
    Fam { key: "[1,0102]", ty: "['int, 'bin]", exprs: &["[1, 0x0102]", "[[0, 1] __integer_add__, [0x01, 0x02] __binary_concat__]", "[1 wd, 0x0102]", "[[1, 0x0102], 3] fst"], tuple: true, module_field: None },
    Fam { key: "[P,5]", ty: "[P[x: 'int, y: 'bin], 'int]", exprs: &["[P[x: 1, y: 0x0102], 5]", "[P[x: [0, 1] __integer_add__, y: [0x01, 0x02] __binary_concat__], [2, 3] __integer_add__]", "[P[x: 1 wd, y: 0x0102], 5 wd]"], tuple: true, module_field: None },
    Fam { key: "Ok", ty: "Ok", exprs: &["Ok", "Ok"], tuple: true, module_field: None },
    // closures of one definition with equal / different captures, another definition, a capture-less function
    Fam { key: "fn:add3", ty: "(#'int -> 'int)", exprs: &["3 mka", "[1, 2] __integer_add__ mka"], tuple: false, module_field: None },
    Fam { key: "fn:add4", ty: "(#'int -> 'int)", exprs: &["4 mka", "[2, 2] __integer_add__ mka"], tuple: false, module_field: None },
    Fam { key: "fn:mul3", ty: "(#'int -> 'int)", exprs: &["3 mkm", "[1, 2] __integer_add__ mkm"], tuple: false, module_field: None },
    Fam { key: "fn:cat0102", ty: "(#'bin -> 'bin)", exprs: &["0x0102 mkb", "[0x01, 0x02] __binary_concat__ mkb"], tuple: false, module_field: None },
    Fam { key: "fn:cat0103", ty: "(#'bin -> 'bin)", exprs: &["0x0103 mkb", "[0x01, 0x03] __binary_concat__ mkb"], tuple: false, module_field: None },
    Fam { key: "fn:inc", ty: "(#'int -> 'int)", exprs: &["&inc", "&inc"], tuple: false, module_field: None },
];

const FN_DEFS: &str = "mka = #'int { =k, #'int { [~, k] __integer_add__ } }, mkm = #'int { =k, #'int { [~, k] __integer_multiply__ } }, mkb = #'bin { =k, #'bin { [~, k] __binary_concat__ } }, inc = #'int { [~, 1] __integer_add__ }, idg = #<'t>'t { ~ }, fst = #<'t>['t, 'int] { ~.0 }";

/// More than 2^16 refs minted on one worker, next to refs minted on every other worker.
fn mass_mint(rng: &mut Rng) -> Scenario {
    let n = 65536 + rng.range(2, 12);
    let nsmall = 2 + rng.usize(5);
    let mut st: Vec<String> = vec![
        "mint = #['int, 'ref, 'ref, 'ref, 'ref] { | =[0, a, b, c, d] => [a, b, c, d] | =[n, a, b, c, d] => [[n, 1] __integer_subtract__, b, c, d, __reference__] ^ }".into(),
        "sm = #{ [__reference__, __reference__, __reference__, __reference__, __reference__, __reference__, __reference__, __reference__, __reference__, __reference__, __reference__, __reference__, __reference__, __reference__, __reference__, __reference__] }".into(),
    ];
    // small minters first and last so that one lands on every worker whatever the mass minter's placement
    for i in 0..nsmall {
        st.push(format!("s{i} = @sm"));
    }
    st.push(format!("m = @{{ r = __reference__, [{n}, r, r, r, r] mint }}"));
    for i in nsmall..(2 * nsmall) {
        st.push(format!("s{i} = @sm"));
    }
    let mut outs = vec!["!m".to_string()];
    for i in 0..(2 * nsmall) {
        outs.push(format!("!s{i}"));
    }
    st.push(format!("[{}]", outs.join(", ")));
    let total = 4 + 16 * 2 * nsmall;
    let mut k = 0;
    let mut groups = Vec::new();
    groups.push(format!("[{}]", (0..4).map(|_| { k += 1; format!("ref#{}", k - 1) }).collect::<Vec<_>>().join(", ")));
    for _ in 0..(2 * nsmall) {
        groups.push(format!("[{}]", (0..16).map(|_| { k += 1; format!("ref#{}", k - 1) }).collect::<Vec<_>>().join(", ")));
    }
    let _ = total;
    let mut h = crate::rng::Fnv::default();
    h.u64(0x3a55);
    h.u64(nsmall as u64);
    Scenario {
        family: "c13-mass-mint".into(),
        ops: vec![ClientOp::Line { session: 0, src: st.join(", ") }],
        modules: vec![],
        files: Default::default(),
        timing: false,
        io: false,
        fixed_faults: Default::default(),
        expect: serde_json::json!({ "value": format!("[{}]", groups.join(", ")), "transports": ["mass_mint_over_2_16_refs_on_one_worker"], "minters": 2 * nsmall + 1, "equal": 0, "unequal": 0 }),
        shape: h.0,
        est_len: 100,
        min_quantum: 1000,
    }
}

// The module also compares at its own top level - evaluated while it is imported, at compile time, by
// another executor than the workers' - tuples of one shape that carry different tuple ids (written
// as a literal / built by a generic function) and exports the verdicts.
const MODULE: &str = "wrapm = #<'t>'t { =v, [tag: v] }, mkl = #<'t>['t, 't] { =[x, y], [x, y] }, lit = [1, 2], vq = [[tag: 7], 7 wrapm] { | =[q, q] => 1 | 0 }, vp = [1, 2] mkl { | =&lit => 1 | 0 }, vn = [[tag: 7], 8 wrapm] { | =[q, q] => 1 | 0 }, [p: P[x: 1, y: 0x0102], i: [2, 3] __integer_add__, b: [0x01, 0x02] __binary_concat__, u: [x: 1, y: 0x0102], vq: vq, vp: vp, vn: vn]";

impl Property for C13 {
    fn id(&self) -> &'static str {
        "C13"
    }
    fn cases(&self, tier: Tier) -> usize {
        match tier {
            Tier::Quick => 320,
            Tier::Thorough => 3200,
        }
    }
    fn variants(&self, tier: Tier) -> usize {
        match tier {
            Tier::Quick => 24,
            Tier::Thorough => 150,
        }
    }
    fn rule_text(&self) -> &'static str {
        "cases: pairs of values from a small universe (small/big ints, binaries as constant vs heap rope vs slice, named/unnamed/labelled tuples, nested, Ok, closures of one definition with equal and different int/binary captures, of another definition, a capture-less function) where one side is built locally and the other arrives as a process result, in a message to a comparer that captured the first, as a second spawn capture, from an in-memory module, or is built on a later REPL line after a same-shape tuple with different field types was merged; both orders of each comparison plus the reflexive one; refs minted by 1-4 processes (and the REPL process, across lines) returned and compared pairwise; handles of 1-3 processes obtained by the spawner, by `&.` in the body and by `&.` one and two calls deep, compared by the spawner and by a comparer process that captured them. The verdict vector must equal the model's structural equality, be symmetric and reflexive, and all minted refs must be pairwise distinct, under every sampled placement (1-6 workers) and schedule. Non-trivial: >=2 workers, >=1 out-of-order handled message, conclusive. Distinct = distinct (scenario shape, interleaving hash)."
    }
    fn required_probes(&self) -> Vec<&'static str> {
        vec!["pair_via_process_result", "pair_via_message", "pair_via_spawn_capture", "pair_via_module", "pair_across_repl_lines", "refs_from_several_processes", "equal_pair_checked", "unequal_pair_checked", "mass_mint_over_2_16_refs_on_one_worker", "process_handles_from_several_call_depths", "function_values_compared", "compared_through_a_partial_view", "nil_and_resource_handles_compared"]
    }
    fn generate(&self, rng: &mut Rng, _tier: Tier) -> Scenario {
        let mut h = crate::rng::Fnv::default();
        let npairs = 1 + rng.usize(6);
        if rng.chance(1, 20) {
            return mass_mint(rng);
        }
        // `wd` widens an int to 'bin | 'int: tuples built through it get other inferred field types
        let mut lines: Vec<Vec<String>> = vec![vec!["wd = #'int { | =0 => 0x00 | =n => n }".to_string(), FN_DEFS.to_string()]]; // groups of statements; a new group = may start a new REPL line
        let mut expected: Vec<String> = Vec::new();
        let mut transports: Vec<&'static str> = Vec::new();
        let mut uses_module = false;
        let mut eq_n = 0;
        let mut ne_n = 0;
        let mut fn_pairs = 0;
        let mut partial_views = 0;
        for k in 0..npairs {
            let fa = rng.usize(FAMS.len());
            // bias towards equal families and near misses
            // (related families are neighbours in the table)
            let fb = if rng.chance(1, 2) { fa } else if rng.chance(1, 3) { if fa + 1 < FAMS.len() && rng.chance(1, 2) { fa + 1 } else { fa.saturating_sub(1) } } else { rng.usize(FAMS.len()) };
            let (a, b) = (&FAMS[fa], &FAMS[fb]);
            let ea = *rng.pick(a.exprs);
            let mut eb = *rng.pick(b.exprs);
            let equal = fa == fb;
            h.u64(fa as u64 * 31 + fb as u64);
            let mut tr = rng.below(6);
            if tr == 4 && b.module_field.is_none() {
                tr = 0;
            }
            if tr == 5 && !(a.tuple && b.tuple) {
                tr = 1;
            }
            h.u64(tr);
            if tr == 2 && (eb.contains(" wd") || eb.contains(" idg") || eb.contains(" fst")) {
                // a union-typed field would not type-check against the comparer's declared message type
                eb = b.exprs[0];
            }
            if tr == 5 && a.tuple && b.tuple && rng.chance(2, 3) {
                // prefer the construction path that infers other field types (a new tuple id of the
                // same shape, first registered on the later line)
                if let Some(w) = b.exprs.iter().find(|e| e.contains(" wd")) {
                    eb = w;
                }
            }
            // a function variable at the head of a chain would be called: reference it with `&`
            let any_fn = a.func() || b.func();
            let amp = if any_fn { "&" } else { "" };
            if any_fn {
                fn_pairs += 1;
            }
            let cur = lines.last_mut().unwrap();
            cur.push(format!("a{k} = {ea}"));
            match tr {
                0 => {
                    transports.push("local");
                    cur.push(format!("b{k} = {eb}"));
                }
                1 => {
                    transports.push("pair_via_process_result");
                    cur.push(format!("pb{k} = @{{ {eb} }}"));
                    cur.push(format!("b{k} = !pb{k}"));
                }
                2 => {
                    transports.push("pair_via_message");
                    // the comparer captured a{k}; b arrives as a message and is sent back as the result
                    cur.push(format!("pc{k} = @{{ x = !#{}, [{amp}a{k} =&x, {amp}x =&a{k}, {amp}x] }}", b.ty));
                    cur.push(format!("{eb} pc{k}"));
                    cur.push(format!("[m{k}, n{k}, b{k}] = !pc{k}"));
                }
                3 => {
                    transports.push("pair_via_spawn_capture");
                    cur.push(format!("c{k} = {eb}"));
                    cur.push(format!("pd{k} = @{{ [{amp}a{k} =&c{k}, {amp}c{k} =&a{k}, {amp}c{k}] }}"));
                    cur.push(format!("[m{k}, n{k}, b{k}] = !pd{k}"));
                }
                4 => {
                    transports.push("pair_via_module");
                    uses_module = true;
                    cur.push(format!("mv{k} = %vals"));
                    cur.push(format!("b{k} = mv{k}.{}", b.module_field.unwrap()));
                }
                _ => {
                    transports.push("pair_across_repl_lines");
                    // a later line merges a same-shape tuple with other field types, then builds b
                    lines.push(vec![format!("zz{k} = {}", if b.key.starts_with('P') { "P[x: 0x00, y: 7]" } else if b.key.starts_with('Q') { "Q[x: 0x00, y: 7]" } else if b.key.starts_with("{x") { "[x: 0x00, y: 7]" } else if b.key.starts_with("{a") { "[a: 0x00, b: 7]" } else { "[0x00, 7]" })]);
                    lines.push(vec![format!("b{k} = {eb}")]);
                }
            }
            let cur = lines.last_mut().unwrap();
            // (a plain `v = a =&b` binding is avoided: after a failing pinned match the compiler
            // narrows `a` and drops later steps - a sequential-core matter outside this property)
            cur.push(format!("[v{k}] = [{amp}a{k} =&b{k}]"));
            cur.push(format!("[w{k}] = [{amp}b{k} =&a{k}]"));
            cur.push(format!("[s{k}] = [{amp}a{k} =&a{k}]"));
            let verdict = if equal { "Ok" } else { "[]" };
            if equal {
                eq_n += 1;
            } else {
                ne_n += 1;
            }
            // the same comparison with one side seen through a partial type (`#(y: 'bin)`): the static
            // view of a value must not decide the verdict
            let has_x = |f: &Fam| f.key.starts_with("P{x") || f.key.starts_with("Q{x") || f.key.starts_with("{x:");
            let partial = has_x(a) && has_x(b) && tr != 5;
            if partial {
                cur.push(format!("pf{k} = #(y: 'bin) {{ [~ =&a{k}] }}"));
                cur.push(format!("[pv{k}] = b{k} pf{k}"));
                cur.push(format!("[pw{k}] = a{k} pf{k}"));
                partial_views += 1;
            }
            let (pe, pn) = if partial { (format!(", pv{k}, pw{k}"), format!(", {verdict}, Ok")) } else { (String::new(), String::new()) };
            if tr == 2 || tr == 3 {
                cur.push(format!("e{k} = [v{k}, w{k}, s{k}, m{k}, n{k}{pe}]"));
                expected.push(format!("[{verdict}, {verdict}, Ok, {verdict}, {verdict}{pn}]"));
            } else {
                cur.push(format!("e{k} = [v{k}, w{k}, s{k}{pe}]"));
                expected.push(format!("[{verdict}, {verdict}, Ok{pn}]"));
            }
        }
        // refs
        let nmint = rng.usize(5);
        h.u64(nmint as u64);
        let mut ref_vars: Vec<String> = Vec::new();
        {
            let cur = lines.last_mut().unwrap();
            for i in 0..nmint {
                cur.push(format!("mm{i} = @{{ [__reference__, __reference__] }}"));
            }
            for i in 0..nmint {
                cur.push(format!("[ra{i}, rb{i}] = !mm{i}"));
                ref_vars.push(format!("ra{i}"));
                ref_vars.push(format!("rb{i}"));
            }
            cur.push("rl0 = __reference__".to_string());
            ref_vars.push("rl0".to_string());
        }
        if rng.chance(1, 2) {
            lines.push(vec!["rl1 = __reference__".to_string()]);
            ref_vars.push("rl1".to_string());
        }
        // pairwise ref verdicts (bounded) and copies
        let mut ref_expected: Vec<String> = Vec::new();
        {
            let cur = lines.last_mut().unwrap();
            let mut rv = Vec::new();
            let n = ref_vars.len();
            let mut count = 0;
            for i in 0..n {
                for j in (i + 1)..n {
                    if count >= 10 {
                        break;
                    }
                    cur.push(format!("[rv{count}] = [{} =&{}]", ref_vars[i], ref_vars[j]));
                    rv.push(format!("rv{count}"));
                    ref_expected.push("[]".to_string());
                    count += 1;
                }
            }
            cur.push(format!("cp = {}", ref_vars[0]));
            cur.push(format!("[rvc] = [cp =&{}]", ref_vars[0]));
            rv.push("rvc".into());
            ref_expected.push("Ok".to_string());
            cur.push(format!("rvs = [{}]", rv.join(", ")));
        }
        // process handles: the handle the spawner got, `&.` in the body, `&.` one and two calls deep;
        // compared by the spawner and by a comparer process that captured them
        let nhp = if rng.chance(1, 2) { 1 + rng.usize(3) } else { 0 };
        h.u64(nhp as u64);
        let mut hv_expected: Vec<String> = Vec::new();
        if nhp > 0 {
            lines[0].push("me = #{ &. }".to_string());
            lines[0].push("deeper = #{ me }".to_string());
            lines[0].push("rme0 = &.".to_string());
            let cur = lines.last_mut().unwrap();
            let mut handles: Vec<(String, usize)> = Vec::new(); // (variable, process index)
            for i in 0..nhp {
                cur.push(format!("hp{i} = @{{ a = &., b = me, c = deeper, [[&a =&b], [&b =&c], [&c =&a], &a, &b, &c] }}"));
            }
            for i in 0..nhp {
                cur.push(format!("[hi{i}, hj{i}, hk{i}, ha{i}, hb{i}, hc{i}] = !hp{i}"));
                for v in ["hp", "ha", "hb", "hc"] {
                    handles.push((format!("{v}{i}"), i));
                }
                hv_expected.push("[[Ok], [Ok], [Ok]]".to_string());
            }
            let mut names = Vec::new();
            let mut inner = Vec::new();
            let mut inner_exp = Vec::new();
            for c in 0..(3 + rng.usize(6)) {
                let (x, xi) = handles[rng.usize(handles.len())].clone();
                let (y, yi) = handles[rng.usize(handles.len())].clone();
                let verdict = if xi == yi { "[Ok]" } else { "[[]]" };
                if rng.chance(1, 3) {
                    inner.push(format!("[&{x} =&{y}]"));
                    inner_exp.push(verdict.to_string());
                } else {
                    cur.push(format!("hv{c} = [&{x} =&{y}]"));
                    names.push(format!("hv{c}"));
                    hv_expected.push(verdict.to_string());
                }
            }
            if !inner.is_empty() {
                cur.push(format!("hcmp = @{{ [{}] }}", inner.join(", ")));
                cur.push("hvi = !hcmp".to_string());
                names.push("hvi".to_string());
                hv_expected.push(format!("[{}]", inner_exp.join(", ")));
            }
            // a handle taken after a tail call (the process's first frame is then another function), and
            // handles of the session's own process taken on different lines
            cur.push("hq = @{ [] ^me }".to_string());
            cur.push("hqr = !hq".to_string());
            cur.push("hvq = [&hqr =&hq]".to_string());
            names.push("hvq".to_string());
            hv_expected.push("[Ok]".to_string());
            cur.push("rme1 = &.".to_string());
            cur.push("hvr = [&rme0 =&rme1]".to_string());
            names.push("hvr".to_string());
            hv_expected.push("[Ok]".to_string());
            let his: Vec<String> = (0..nhp).map(|i| format!("[hi{i}, hj{i}, hk{i}]")).collect();
            cur.push(format!("hvs = [{}, {}]", his.join(", "), names.join(", ")));
        }
        // nil and resource handles: the two kinds of value for which "equal" cannot be read off the
        // value a pinned match yields (nil is the no-match value; a verdict must not depend on it), so
        // the verdict is taken from a block dispatch. nil by three construction paths (literal, a
        // timed-out select, a process result); two open files.
        let nilres = rng.chance(1, 3);
        h.u64(nilres as u64);
        let mut nv_expected: Vec<&str> = Vec::new();
        if nilres {
            let cur = lines.last_mut().unwrap();
            cur.push("nn0 = []".to_string());
            cur.push("nn1 = ! [0]".to_string());
            cur.push("nnp = @{ [] }".to_string());
            cur.push("nn2 = !nnp".to_string());
            let nn = ["nn0", "nn1", "nn2"];
            let (a, b) = (nn[rng.usize(3)], nn[rng.usize(3)]);
            cur.push(format!("nv0 = [{a}, {b}] {{ | =[x, x] => 1 | 0 }}"));
            nv_expected.push("1");
            let (a, b) = (nn[rng.usize(3)], nn[rng.usize(3)]);
            cur.push(format!("nv1 = {a} {{ | =&{b} => 1 | 0 }}"));
            nv_expected.push("1");
            let (a, b) = (nn[rng.usize(3)], nn[rng.usize(3)]);
            cur.push(format!("nv2 = [1, {a}] {{ | =[1, &{b}] => 1 | 0 }}"));
            nv_expected.push("1");
            cur.push("rf = [\"/c13a\" .0, 577, 420] __file_open__".to_string());
            cur.push("rg = [\"/c13b\" .0, 577, 420] __file_open__".to_string());
            cur.push("nv3 = [rf, rf] { | =[x, x] => 1 | 0 }".to_string());
            nv_expected.push("1");
            cur.push("nv4 = [rf, rg] { | =[x, x] => 1 | 0 }".to_string());
            nv_expected.push("0");
            cur.push("nv5 = rg { | =&rf => 1 | 0 }".to_string());
            nv_expected.push("0");
            cur.push("nv6 = rf { | =&rf => 1 | 0 }".to_string());
            nv_expected.push("1");
            cur.push("nv7 = [[rf, 1], [rf, 1]] { | =[x, x] => 1 | 0 }".to_string());
            nv_expected.push("1");
            cur.push("nvs = [nv0, nv1, nv2, nv3, nv4, nv5, nv6, nv7]".to_string());
        }
        // long binaries compared, dropped and their slots reused: a 70-byte binary built inside a
        // function is compared with the argument (equal) and dies on return; after a step boundary (an
        // awaited child) a second function builds a DIFFERENT binary of the same length with one
        // allocation - which lands in the reclaimed slot - and compares it with the same argument
        let longbin = rng.chance(1, 4);
        h.u64(longbin as u64);
        if longbin {
            lines[0].push("mkqa = #'bin { =z, w = [0xab, 70] __binary_repeat__, z { | =&w => 1 | 0 } }".to_string());
            lines[0].push("mkqb = #'bin { =z, w = [0xcd, 70] __binary_repeat__, z { | =&w => 1 | 0 } }".to_string());
            let cur = lines.last_mut().unwrap();
            cur.push("bx = [[0xab, 35] __binary_repeat__, [0xab, 35] __binary_repeat__] __binary_concat__".to_string());
            cur.push("bv1 = bx mkqa".to_string());
            cur.push("bp = @{ 1 }".to_string());
            cur.push("bq = !bp".to_string());
            cur.push("bv2 = bx mkqb".to_string());
            cur.push("bv3 = bx mkqa".to_string());
            cur.push("bvs = [bv1, bv2, bv3]".to_string());
        }
        let mut fin: Vec<String> = (0..npairs).map(|k| format!("e{k}")).collect();
        if nhp > 0 {
            fin.push("hvs".into());
            expected.push(format!("[{}]", hv_expected.join(", ")));
        }
        if nilres {
            fin.push("nvs".into());
            expected.push(format!("[{}]", nv_expected.join(", ")));
        }
        if longbin {
            fin.push("bvs".into());
            expected.push("[1, 0, 1]".to_string());
        }
        if uses_module {
            let cur = lines.last_mut().unwrap();
            cur.push("mvv = %vals".to_string());
            cur.push("mvs = [mvv.vq, mvv.vp, mvv.vn]".to_string());
            fin.push("mvs".into());
            expected.push("[1, 1, 0]".to_string());
        }
        fin.push("rvs".into());
        fin.push(format!("[{}]", ref_vars.join(", ")));
        lines.last_mut().unwrap().push(format!("[{}]", fin.join(", ")));
        expected.push(format!("[{}]", ref_expected.join(", ")));
        expected.push(format!("[{}]", (0..ref_vars.len()).map(|i| format!("ref#{i}")).collect::<Vec<_>>().join(", ")));
        let expected_s = format!("[{}]", expected.join(", "));
        // REPL lines: the across-lines transport needs separate lines; otherwise split randomly
        let mut ops = super::c03::noise_ops(rng);
        let force_split = transports.contains(&"pair_across_repl_lines") || ref_vars.contains(&"rl1".to_string());
        if force_split || rng.chance(1, 2) {
            for g in &lines {
                if !g.is_empty() {
                    ops.push(ClientOp::Line { session: 0, src: g.join(", ") });
                }
            }
        } else {
            let all: Vec<String> = lines.iter().flatten().cloned().collect();
            ops.push(ClientOp::Line { session: 0, src: all.join(", ") });
        }
        let modules = if uses_module { vec![(vec!["vals".to_string()], MODULE.to_string())] } else { vec![] };
        Scenario {
            family: "c13-pairs-and-refs".into(),
            ops,
            modules,
            files: Default::default(),
            timing: false,
            io: false,
            fixed_faults: Default::default(),
            expect: serde_json::json!({ "value": expected_s, "transports": transports, "minters": nmint, "equal": eq_n, "unequal": ne_n, "handles": nhp, "fn_pairs": fn_pairs, "partial_views": partial_views, "nilres": nilres }),
            shape: h.0,
            est_len: 100,
            min_quantum: 0,
        }
    }
    fn monitor(&self, _scn: &Scenario) -> Box<dyn Monitor + Send> {
        Box::new(NoMonitor)
    }
    fn run_probes(&self, scn: &Scenario, _r: &RunResult) -> std::collections::BTreeMap<String, u64> {
        let mut m = std::collections::BTreeMap::new();
        for t in scn.expect["transports"].as_array().into_iter().flatten() {
            *m.entry(t.as_str().unwrap_or("").to_string()).or_insert(0) += 1;
        }
        if scn.expect["minters"].as_u64().unwrap_or(0) >= 2 {
            m.insert("refs_from_several_processes".into(), 1);
        }
        if scn.expect["nilres"].as_bool().unwrap_or(false) {
            m.insert("nil_and_resource_handles_compared".into(), 1);
        }
        if scn.expect["partial_views"].as_u64().unwrap_or(0) >= 1 {
            m.insert("compared_through_a_partial_view".into(), 1);
        }
        if scn.expect["fn_pairs"].as_u64().unwrap_or(0) >= 1 {
            m.insert("function_values_compared".into(), 1);
        }
        if scn.expect["handles"].as_u64().unwrap_or(0) >= 1 {
            m.insert("process_handles_from_several_call_depths".into(), 1);
        }
        m.insert("equal_pair_checked".into(), scn.expect["equal"].as_u64().unwrap_or(0));
        m.insert("unequal_pair_checked".into(), scn.expect["unequal"].as_u64().unwrap_or(0));
        m
    }
    fn judge(&self, scn: &Scenario, refdata: Option<&RefData>, r: &RunResult) -> Vec<Violation> {
        let mut v = Vec::new();
        let expected = scn.expect["value"].as_str().unwrap_or("");
        let got = r.outs.iter().rev().find(|o| matches!(o, Out::Value(_) | Out::RuntimeError(_)));
        match got {
            Some(Out::Value(s)) if s == expected => {}
            Some(Out::Value(s)) => {
                // locate the first differing component for a stable cause
                let cause = if s.contains("ref#") && expected.contains("ref#") && s.rsplit("[ref#").next() != expected.rsplit("[ref#").next() {
                    "refs-not-distinct"
                } else {
                    "verdict-differs-from-structural-equality"
                };
                v.push(Violation::new("C13", "equality", cause, format!("program yielded {s}; structural equality gives {expected}"), r.steps));
            }
            other => v.push(Violation::new("C13", "equality", "no-verdicts", format!("program ended with {:?}; expected {expected}", other), r.steps)),
        }
        if let Some(rd) = refdata
            && v.is_empty()
            && rd.outs.last() != r.outs.last()
        {
            v.push(Violation::new("C13", "equality", "placement-dependent", format!("verdicts {:?} differ from the single-worker reference {:?}", r.outs.last(), rd.outs.last()), r.steps));
        }
        v
    }
}
