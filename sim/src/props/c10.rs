//! C10 — packaging steps preserve behaviour (scoped: the merge history leg is what simulation
//! decides; tree-shake / JSON / module import ride along as per-run configuration).

use super::{Property, RefData, Scenario, Tier};
use crate::client::{Client, ClientOp, Out};
use crate::rng::Rng;
use crate::run::{EndState, Monitor, RunResult, Violation};
use crate::world::World;
use serde::{Deserialize, Serialize};
use std::collections::BTreeMap;

pub struct C10;

const HM_BODY: &str = "[spin: #['int, 'int] { | =[0, acc] => acc | =[n, acc] => [[n, 1] __integer_subtract__, [acc, 2] __integer_add__] ^ }, inc: #'int { [~, 1] __integer_add__ }, k: [0x01, 0x02] __binary_concat__, t: P[x: 1, y: 0x0a]]";

/// Subject programs: (definitions, body, uses the `hm` helper record)
fn subjects(rng: &mut Rng) -> (String, String, bool, &'static str, Vec<String>) {
    let (a, b, c, d) = subjects_inner(rng);
    let sib = siblings(d, &a);
    (a, b, c, d, sib)
}

/// History programs that share the subject's aliases and pattern types but inhabit them with other
/// concrete types (so tables computed for them are *related* to the subject's, not merely shifted).
fn siblings(kind: &str, defs: &str) -> Vec<String> {
    match kind {
        "union-dispatch" => vec![format!("{defs}, #{{ Circle[r: 3] area }}"), format!("{defs}, #{{ Tri[1, 1, 1] area }}")],
        "option" => vec![format!("{defs}, #{{ Some[1] f }}"), format!("{defs}, #{{ None f }}")],
        "classify" => vec![format!("{defs}, hh = #'int {{ ~ }}, #{{ &hh g }}"), format!("{defs}, #{{ 5 g }}")],
        "recursive-type" => vec![format!("{defs}, #{{ [Nil, 0] sum }}")],
        "closure-binary-capture" => vec![format!("{defs}, #{{ 5 h }}")],
        "typed-receive-process" => vec![format!("{defs}, #{{ s = 1 @srv, Stop s, !s }}")],
        _ => vec![],
    }
}

fn subjects_inner(rng: &mut Rng) -> (String, String, bool, &'static str) {
    match rng.below(16) {
        0 => (
            "'shape = Circle[r: 'int] | Rect[w: 'int, h: 'int] | Tri['int, 'int, 'int], area = #'shape { | =Circle[r: r] => [r, r] __integer_multiply__ | =Rect[w: w, h: h] => [w, h] __integer_multiply__ | =Tri[a, b, c] => [a, [b, c] __integer_add__] __integer_add__ }".into(),
            format!("[Circle[r: {}] area, Rect[w: 2, h: {}] area, Tri[1, 2, 3] area]", rng.range(1, 9), rng.range(1, 9)),
            false,
            "union-dispatch",
        ),
        1 => (
            "'list = Nil | Cons['int, ^], sum = #['list, 'int] { | =[Nil, acc] => acc | =[Cons[h, t], acc] => [t, [acc, h] __integer_add__] ^ }".into(),
            format!("[Cons[{}, Cons[2, Cons[3, Nil]]], 0] sum", rng.range(1, 9)),
            false,
            "recursive-type",
        ),
        2 => (
            "gx = #(x: 'int) { $x }".into(),
            format!("p = Point[x: {}, y: 2, z: 0x03], (x, y) = p, [x, y, p gx, p {{ =Point(z: z) => z }}]", rng.range(1, 9)),
            false,
            "partial-types",
        ),
        3 => (
            "h = #('int | 'bin) { | ='int => 1 | ='bin => 2 }".into(),
            format!("k = [0x01, 0x{:02x}] __binary_concat__, f = #'bin {{ [~, k] __binary_concat__ }}, [0x03 f, 5 h, 0x01 h, k h]", rng.range(2, 200)),
            false,
            "closure-binary-capture",
        ),
        4 => (
            "'msg = Add['int] | Get | Stop, srv = #'int { =acc, !#'msg { | =Add[n] => [acc, n] __integer_add__ ^ | =Get => acc ^ | =Stop => acc } }".into(),
            format!("s = {} @srv, Add[5] s, Add[7] s, Stop s, !s", rng.range(1, 50)),
            false,
            "typed-receive-process",
        ),
        5 => (
            String::new(),
            format!("a = [{}, 0] hm.spin, b = a hm.inc, c = [hm.k, hm.t.y] __binary_concat__, p = b @#'int {{ [~, 100] __integer_add__ }}, [a, b, c, !p, hm.t]", rng.range(1, 20)),
            true,
            "module-record",
        ),
        6 => (
            "'v = 'int | 'bin, 'opt = Some['v] | None, f = #'opt { | =Some[x] => x | 0 }".into(),
            format!("[Some[0x{:02x}] f, Some[{}] f, None f]", rng.range(1, 250), rng.range(1, 99)),
            false,
            "option",
        ),
        7 => (
            "g = #('int | (#'int -> 'int)) { | =(#'int -> 'int) => 1 | 0 }".into(),
            format!("k = #'int {{ [~, {}] __integer_add__ }}, [&k g, 5 g]", rng.range(1, 9)),
            false,
            "classify",
        ),
        8 => (
            // builtins the environment has not seen before, used through their signature at run time:
            // as a receive source (the message type is the builtin's parameter type) and in a type test
            "gb = #('int | (#['int, 'int] -> 'int)) { | =(#['int, 'int] -> 'int) => 1 | 0 }".into(),
            format!("ia = &__integer_and__, p = @#{{ m = ! [&ia], m ia }}, [255, {}] p, ix = &__integer_xor__, q = @#{{ !ix }}, [3, 5] q, [!p, !q, &__integer_or__ gb, 5 gb]", rng.range(1, 250)),
            false,
            "builtin-signature",
        ),
        11 => (
            // values whose run-time type is looked up through a type the program never writes: process
            // handles tested against a wider / other process type and sent as bare messages, builtin
            // values tested against a wider function type (the tables must not depend on which types
            // happen to be registered - tree-shaking drops the unreferenced ones)
            "pt = #((@'int) | (@'bin)) { | =(@'int) => 1 | =(@'bin) => 2 }, bt = #((#['int, 'int] -> ('int | 'bin)) | (#'bin -> 'int)) { | =(#['int, 'int] -> ('int | 'bin)) => 1 | =(#'bin -> 'int) => 2 }".into(),
            format!(
                "p = @#{{ !#'int }}, q = @#{{ !#'bin }}, w = @#{{ !#'int }}, m = @#{{ !#(@'int) =h, {} h, Ok }}, &w m, [&p pt, &q pt, &__integer_xor__ bt, &__binary_popcount__ bt, !w]",
                rng.range(1, 90)
            ),
            false,
            "unregistered-value-types",
        ),
        10 => (
            // composite effect results: the backend stamps `[name, kind]` / `[kind, size, modified, mode]`
            // with type ids the environment pushed to it, so they must follow the merged tables
            "kd = #(File | Dir | Symlink | Other) { | =File => 1 | =Dir => 2 | 3 }".into(),
            format!(
                "d = \"/d\" .0 __directory_read__, e1 = d __directory_next__, e2 = d __directory_next__, e3 = [d __directory_next__], c = d __directory_close__, s = \"/d/a\" .0 __filesystem_stat__, n = [\"/nope{}\" .0 __filesystem_stat__], [e1, e2, e3, s, n, e1.1 kd, s.0 kd]",
                rng.range(1, 9)
            ),
            false,
            "effect-result-types",
        ),
        9 => (
            // REPL only: a process referenced by number (`@N`), type-tested at run time, compared with the
            // spawn handle, sent to and awaited. `@?` is replaced by the client with the newest process id;
            // lines are separated by `;;`.
            String::new(),
            format!(
                "'pi = (@'int -> 'int), 'pb = (@'bin -> 'bin), pcl = #('pi | 'pb) {{ | ='pi => 1 | 2 }}, p = @{{ m = !'int, n = !'int, [m, n] __integer_add__ }};;q = {} @?;;6 q;;[&q pcl, &p pcl, [&q =&p], [&p =&q], !q]",
                rng.range(1, 90)
            ),
            false,
            "repl-process-ref",
        ),
        13 => (
            // values of one tuple shape whose tuple types arrive in DIFFERENT merges when the subject is
            // entered as two REPL lines (the definition line first): they compare equal all the same
            format!("sa = Some[{}]", 1),
            "f = #('int | 'bin) { =x => Some[x] }, sb = 1 f, sc = 2 f, [[sb =&sa], [sa =&sb], [sc =&sa]]".to_string(),
            false,
            "equality-across-merges",
        ),
        12 => (
            // the entry captures several closures of ONE function literal with different captured
            // values (and one captured twice): extraction rebuilds each capture as code
            format!("mk = #'int {{ =n, #'int {{ [~, n] __integer_add__ }} }}, mkb = #'bin {{ =k, #'bin {{ [~, k] __binary_concat__ }} }}, inc = 1 mk, add10 = {} mk, again = 1 mk, ca = 0x41 mkb, cb = 0x{:02x} mkb", rng.range(2, 90), rng.range(0x42, 0xf0)),
            "[100 inc, 100 add10, 100 again, 0xff ca, 0xff cb]".to_string(),
            false,
            "captured-closures-of-one-literal",
        ),
        _ => {
            // the confluent process family of C03
            let mut budget = 5i32;
            let root = super::c03::Gen::random_node(rng, 2, &mut budget);
            let arg = rng.range(1, 50);
            let mut g = super::c03::Gen::new();
            let name = g.emit(&root);
            (g.defs.join(", "), format!("p = {arg} @{name}, !p"), false, "confluent-processes")
        }
    }
}

/// Programs merged before / around the subject: they shift and deduplicate every table.
const HISTORY: [&str; 8] = [
    "#{ A[p: 1, q: 0x01] }",
    "#{ Circle[r: 0x00] }",
    "#{ [[12, 18] __integer_gcd__, 0x0102 __binary_hash32__, 0x0102 __binary_popcount__] }",
    "#{ [99999999999999999999, 0xdeadbeef, 123456789] }",
    "sp = #['int, 'int] { | =[0, acc] => acc | =[n, acc] => [[n, 1] __integer_subtract__, [acc, 3] __integer_add__] ^ }, #{ [400, 0] sp }",
    "'shape = Sq[s: 'int] | Circle[r: 'bin], f = #'shape { | =Sq[s: s] => s | =Circle[r: r] => r __binary_length__ }, #{ [Sq[s: 4] f, Circle[r: 0x0102] f] }",
    "'list = Nil | Cons['bin, ^], len = #['list, 'int] { | =[Nil, acc] => acc | =[Cons[h, t], acc] => [t, [acc, 1] __integer_add__] ^ }, #{ [Cons[0x01, Cons[0x02, Nil]], 0] len }",
    "#{ Point[x: 0x01, y: 0x02, z: 3] }",
];
const HISTORY_LINES: [&str; 4] = ["q1 = Other[a: 1, b: 0x0102]", "'msg = Add['bin] | Halt, q3 = #'msg { | =Add[b] => b | =Halt => 0x }", "P[x: 0x00, y: 7]", "Zed[1, 2, 3]"];

#[derive(Clone, Debug, Serialize, Deserialize)]
struct Expect {
    defs: String,
    body: String,
    #[serde(default)]
    siblings: Vec<String>,
    uses_hm: bool,
    reference: Option<Out>,
    kind: String,
}

impl Property for C10 {
    fn id(&self) -> &'static str {
        "C10"
    }
    fn cases(&self, tier: Tier) -> usize {
        match tier {
            Tier::Quick => 600,
            Tier::Thorough => 2400,
        }
    }
    fn variants(&self, tier: Tier) -> usize {
        match tier {
            Tier::Quick => 24,
            Tier::Thorough => 120,
        }
    }
    fn wants_reference(&self) -> bool {
        false
    }
    fn rule_text(&self) -> &'static str {
        "cases: a subject program (union dispatch, recursive types, partial types, closures with binary captures, typed-receive processes, builtins new to the environment used as receive sources and in type tests, a REPL session that references a process by number (`@N`) and type-tests it, directory listing and stat whose composite results the backend stamps with pushed type ids, process handles and builtin values tested against types the program never writes, a helper record, C03's confluent process family) is run once as compiled in a fresh environment (reference) and then under variants that draw: 0-6 previously merged programs and REPL lines of a second session (other tuple shapes, same-named tuples with other field types, other constants and builtins), some still running when the subject is merged, merges landing while the subject runs, the load path (run path as compiled / tree-shaken / JSON round trip, or REPL), helpers inlined vs imported from an in-memory module, plus the usual schedule/configuration sampling. History leg = variants with >=1 prior merge; configuration leg = the rest. Non-trivial: >=2 workers, >=1 out-of-order handled message, conclusive. Distinct = distinct (scenario shape + packaging, interleaving hash)."
    }
    fn required_probes(&self) -> Vec<&'static str> {
        vec!["history_leg_runs", "configuration_leg_runs", "subject_tree_shaken", "subject_json_roundtrip", "subject_via_repl", "subject_module_import", "merge_while_subject_running", "history_program_still_running_at_merge", "worker_tables_compared"]
    }
    fn generate(&self, rng: &mut Rng, _tier: Tier) -> Scenario {
        let (defs, body, uses_hm, kind, siblings) = subjects(rng);
        let mut h = crate::rng::Fnv::default();
        h.str(kind);
        h.str(&body.chars().filter(|c| !c.is_ascii_digit()).collect::<String>());
        let e = Expect { defs, body, siblings, uses_hm, reference: None, kind: kind.to_string() };
        let mut files: BTreeMap<String, Vec<u8>> = BTreeMap::new();
        if kind == "effect-result-types" {
            files.insert("/d/a".to_string(), vec![1, 2]);
            files.insert("/d/b".to_string(), vec![3]);
        }
        Scenario {
            family: format!("c10-{kind}"),
            ops: vec![],
            modules: vec![(vec!["hm".to_string()], HM_BODY.to_string()), (vec!["num".to_string()], HM_BODY.to_string())],
            files,
            timing: false,
            io: false,
            fixed_faults: Default::default(),
            expect: serde_json::to_value(&e).unwrap(),
            shape: h.0,
            est_len: 100,
            min_quantum: 0,
        }
    }
    fn prepare(&self, scn: &mut Scenario, case_seed: u64) -> Vec<(Violation, crate::run::RunSpec, RunResult)> {
        let mut e: Expect = serde_json::from_value(scn.expect.clone()).unwrap();
        let mut s2 = scn.clone();
        s2.ops = if e.kind == "repl-process-ref" {
            e.body.split(";;").map(|l| ClientOp::Line { session: 0, src: l.to_string() }).collect()
        } else {
            vec![ClientOp::Run { src: render_run(&e, 0), shake: false, json: false, wait: true }]
        };
        let spec = super::reference_spec(&s2, case_seed);
        let r = super::run_spec(self, &s2, spec.clone(), false);
        scn.est_len = r.steps.max(40) * 3;
        let out = r.outs.last().cloned();
        match (&r.end, &out) {
            (EndState::Completed, Some(Out::Value(_))) => {
                e.reference = out;
                scn.expect = serde_json::to_value(&e).unwrap();
                vec![]
            }
            (_, Some(Out::ParseError | Out::CompileError(_))) => vec![(Violation::new("HARNESS", "scenario-rejected", "generator-bug", format!("subject rejected: {:?}", out), r.steps), spec, r)],
            _ => vec![(Violation::new("C10", "reference", "did-not-complete", format!("the subject as compiled in a fresh environment ended {:?} with {:?}", r.end, out), r.steps), spec, r)],
        }
    }
    fn variant_ops(&self, scn: &Scenario, rng: &mut Rng) -> Option<Vec<ClientOp>> {
        let e: Expect = serde_json::from_value(scn.expect.clone()).ok()?;
        let mut ops = Vec::new();
        let nhist = if rng.chance(1, 4) { 0 } else { 1 + rng.usize(6) };
        let mut during: Vec<ClientOp> = Vec::new();
        for _ in 0..nhist {
            let op = if !e.siblings.is_empty() && rng.chance(1, 2) {
                // a sibling of the subject: same aliases and pattern types, other inhabitants
                let src = rng.pick(&e.siblings).clone();
                if rng.chance(1, 3) {
                    // as lines of a second REPL session (strip the run-path wrapper)
                    ClientOp::Line { session: 1, src: src.replace("#{ ", "").trim_end_matches(" }").to_string() }
                } else {
                    ClientOp::Run { src, shake: rng.chance(1, 2), json: rng.chance(1, 4), wait: rng.chance(1, 2) }
                }
            } else if rng.chance(1, 3) {
                ClientOp::Line { session: 1, src: rng.pick(&HISTORY_LINES).to_string() }
            } else {
                ClientOp::Run { src: rng.pick(&HISTORY).to_string(), shake: rng.chance(1, 2), json: rng.chance(1, 4), wait: rng.chance(1, 2) }
            };
            if rng.chance(1, 4) {
                during.push(op);
            } else {
                ops.push(op);
            }
        }
        let import: u8 = if e.uses_hm && rng.chance(1, 2) { if rng.chance(1, 6) { 2 + rng.below(2) as u8 } else { 1 } } else { 0 };
        if e.kind == "repl-process-ref" {
            // nothing may start a process between the spawn and the `@?` line
            ops.extend(during);
            for l in e.body.split(";;") {
                ops.push(ClientOp::Line { session: 0, src: l.to_string() });
            }
            return Some(ops);
        }
        match rng.below(4) {
            0 => {
                // REPL path
                let src = render_repl(&e, import);
                if rng.chance(1, 2) && !e.defs.is_empty() {
                    ops.push(ClientOp::Line { session: 0, src: if e.uses_hm { hm_line(import) } else { e.defs.clone() } });
                    ops.extend(during);
                    ops.push(ClientOp::Line { session: 0, src: e.body.clone() });
                } else {
                    ops.extend(during);
                    ops.push(ClientOp::Line { session: 0, src });
                }
            }
            k => {
                let shake = k >= 2;
                let json = rng.chance(1, 2);
                if during.is_empty() {
                    ops.push(ClientOp::Run { src: render_run(&e, import), shake, json, wait: true });
                } else {
                    let nth = ops.iter().filter(|o| matches!(o, ClientOp::Run { .. })).count();
                    ops.push(ClientOp::Run { src: render_run(&e, import), shake, json, wait: false });
                    // only non-waiting runs may sit between the start and the wait, so the index stays valid
                    for d in during {
                        match d {
                            ClientOp::Run { src, shake, json, .. } => ops.push(ClientOp::Run { src, shake, json, wait: false }),
                            other => ops.push(other),
                        }
                    }
                    ops.push(ClientOp::WaitRun { nth });
                }
            }
        }
        Some(ops)
    }
    fn monitor(&self, _scn: &Scenario) -> Box<dyn Monitor + Send> {
        Box::new(TableMonitor::default())
    }
    fn run_probes(&self, _scn: &Scenario, r: &RunResult) -> BTreeMap<String, u64> {
        let mut m = BTreeMap::new();
        let subject_idx = r.ops.iter().rposition(|o| matches!(o, ClientOp::Run { .. } | ClientOp::Line { session: 0, .. })).unwrap_or(0);
        let prior = r.ops[..subject_idx].iter().filter(|o| matches!(o, ClientOp::Run { .. } | ClientOp::Line { session: 1, .. })).count();
        if prior > 0 {
            m.insert("history_leg_runs".into(), 1);
        } else {
            m.insert("configuration_leg_runs".into(), 1);
        }
        if let Some(ClientOp::WaitRun { nth }) = r.ops.last() {
            m.insert("merge_while_subject_running".into(), 1);
            let mut n = 0;
            for o in &r.ops {
                if let ClientOp::Run { shake, json, src, .. } = o {
                    if n == *nth {
                        if *shake {
                            m.insert("subject_tree_shaken".into(), 1);
                        }
                        if *json {
                            m.insert("subject_json_roundtrip".into(), 1);
                        }
                        if (src.contains("%hm") || src.contains("%num")) {
                            m.insert("subject_module_import".into(), 1);
                        }
                    }
                    n += 1;
                }
            }
        } else {
            match r.ops.get(subject_idx) {
                Some(ClientOp::Run { shake, json, src, .. }) => {
                    if *shake {
                        m.insert("subject_tree_shaken".into(), 1);
                    }
                    if *json {
                        m.insert("subject_json_roundtrip".into(), 1);
                    }
                    if (src.contains("%hm") || src.contains("%num")) {
                        m.insert("subject_module_import".into(), 1);
                    }
                }
                Some(ClientOp::Line { .. }) => {
                    m.insert("subject_via_repl".into(), 1);
                    if r.ops.iter().any(|o| matches!(o, ClientOp::Line { session: 0, src } if (src.contains("%hm") || src.contains("%num")))) {
                        m.insert("subject_module_import".into(), 1);
                    }
                }
                _ => {}
            }
        }
        if r.ops[..subject_idx].iter().any(|o| matches!(o, ClientOp::Run { wait: false, .. })) {
            m.insert("history_program_still_running_at_merge".into(), 1);
        }
        m
    }
    fn allows_rejected_lines(&self) -> bool {
        // judged below: rejected where the reference was accepted = violation, rejected in the
        // reference too = harness error
        true
    }
    fn judge(&self, scn: &Scenario, _refdata: Option<&RefData>, r: &RunResult) -> Vec<Violation> {
        let mut v = Vec::new();
        let Ok(e) = serde_json::from_value::<Expect>(scn.expect.clone()) else { return v };
        let Some(reference) = e.reference else { return v };
        // a program the front end accepted as compiled in a fresh environment and rejects in this
        // packaging (helpers imported, another history) is a packaging difference; one it rejects in
        // the reference run as well is a generator bug
        if let Some(bad) = r.outs.iter().find(|o| matches!(o, Out::CompileError(_) | Out::ParseError)) {
            if matches!(reference, Out::CompileError(_) | Out::ParseError) {
                return vec![Violation::new("HARNESS", "scenario-rejected", "generator-bug", format!("generated scenario was rejected by the front end: {:?}", bad), r.steps)];
            }
            v.push(Violation::new("C10", "packaging", "rejected-by-front-end", format!("subject ({}) was rejected by the front end in this packaging: {:?}; as compiled in a fresh environment it gives {:?}", e.kind, bad, reference), r.steps));
            return v;
        }
        let got = r.outs.last();
        if got != Some(&reference) {
            let subject = r.ops.iter().rev().find(|o| matches!(o, ClientOp::Run { .. } | ClientOp::Line { session: 0, .. }));
            let how = match subject {
                Some(ClientOp::Run { shake, json, src, .. }) => format!("run path shake={shake} json={json} import={}", (src.contains("%hm") || src.contains("%num"))),
                Some(ClientOp::Line { .. }) => "REPL path".to_string(),
                _ => String::new(),
            };
            let prior = r.ops.iter().filter(|o| matches!(o, ClientOp::Run { .. } | ClientOp::Line { session: 1, .. })).count();
            let cause = match got {
                Some(Out::Value(_)) => "different-value",
                Some(Out::RuntimeError(_)) => "runtime-error",
                Some(Out::EnvError(_)) => "environment-error",
                _ => "different-outcome",
            };
            v.push(Violation::new("C10", "packaging", cause, format!("subject ({}; {how}; {} other merges) gave {:?}; as compiled in a fresh environment it gives {:?}", e.kind, prior.saturating_sub(1), got, reference), r.steps));
        }
        for o in &r.outs {
            if let Out::EnvError(x) = o
                && x.contains("PANIC")
            {
                v.push(Violation::new("C10", "packaging", "panic-in-merge", x.clone(), r.steps));
            }
        }
        v
    }
}

/// How the helper record reaches the subject: 0 written in place, 1 imported from the in-memory
/// module `hm`, 2 / 3 imported from an in-memory module of the program's own that is called `num` -
/// the name of a standard-library module - next to an import of the library's `list`, which itself
/// imports the library's `iter` and `num` (resolution is per package: each side must get its own).
fn hm_line(import: u8) -> String {
    match import {
        0 => format!("hm = {HM_BODY}"),
        1 => "hm = %hm".to_string(),
        2 => "lq = %list, hm = %num".to_string(),
        _ => "hm = %num, lq = %list".to_string(),
    }
}

fn render_run(e: &Expect, import: u8) -> String {
    let mut parts: Vec<String> = Vec::new();
    if !e.defs.is_empty() {
        parts.push(e.defs.clone());
    }
    if e.uses_hm {
        parts.push(hm_line(import));
    }
    parts.push(format!("#{{ {} }}", e.body));
    parts.join(", ")
}

fn render_repl(e: &Expect, import: u8) -> String {
    let mut parts: Vec<String> = Vec::new();
    if !e.defs.is_empty() {
        parts.push(e.defs.clone());
    }
    if e.uses_hm {
        parts.push(hm_line(import));
    }
    parts.push(e.body.clone());
    parts.join(", ")
}

/// At the end of a run every worker's program tables must be index-aligned with the environment's.
#[derive(Default)]
pub struct TableMonitor {
    probes: BTreeMap<String, u64>,
}

impl Monitor for TableMonitor {
    fn at_end(&mut self, world: &World, client: &Client, end: &EndState) -> Vec<Violation> {
        let mut v = Vec::new();
        if !matches!(end, EndState::Completed) || world.dead {
            return v;
        }
        for m in &client.serde_mismatch {
            v.push(Violation::new("C10", "serde", "bytecode-differs-after-round-trip", m.clone(), world.steps));
        }
        let program = world.env.get_program();
        for (wi, w) in world.workers.iter().enumerate() {
            let ex = w.verif_executor();
            let (c, f, t, b, tc, ct) = ex.verif_program_lens();
            let want = (program.get_constants().len(), program.get_functions().len(), program.get_tuples().len(), program.get_builtins().len(), program.get_types().len(), program.get_tuples().len());
            if (c, f, t, b, tc, ct) != want {
                v.push(Violation::new("C10", "merge", "worker-tables-misaligned", format!("worker {wi} holds (constants, functions, tuples, builtins, type-compat, canonical) = {:?}; the environment's program has {:?}", (c, f, t, b, tc, ct), want), world.steps));
                break;
            }
            for i in 0..f {
                if ex.get_function(i) != program.get_function(i) {
                    v.push(Violation::new("C10", "merge", "worker-function-differs", format!("worker {wi} function {i} differs from the environment's"), world.steps));
                    return v;
                }
            }
            for i in 0..c {
                if ex.get_constant(i) != program.get_constant(i) {
                    v.push(Violation::new("C10", "merge", "worker-constant-differs", format!("worker {wi} constant {i} differs from the environment's"), world.steps));
                    return v;
                }
            }
            *self.probes.entry("worker_tables_compared".into()).or_insert(0) += 1;
        }
        v
    }
    fn probes(&self) -> BTreeMap<String, u64> {
        self.probes.clone()
    }
}
