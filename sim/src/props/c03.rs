//! C03 — results do not depend on scheduling, worker count or time-slice length.
//! Confluent programs: single-source awaits, single-sender mailboxes, sleep-only timeouts.

use super::{Property, RefData, Scenario, Tier};
use crate::client::{ClientOp, Noise, Out};
use crate::rng::Rng;
use crate::run::{Monitor, NoMonitor, RunResult, Violation};

pub struct C03;

/// A process template: a Quiver function `#'int -> 'int` plus its model.
#[derive(Clone, Debug)]
pub enum Node {
    /// arg + add, after spinning `spin` iterations and optionally sleeping
    Leaf { add: i64, spin: u32, sleep: Option<u32> },
    /// spawn kids with arg+1.., optionally spin, await in `order`, fold acc*31 + r_i in index order
    Join { kids: Vec<Node>, order: Vec<usize>, spin: u32, double_await: bool },
    /// spawn a receiver, send k messages arg+1..arg+k, await it: fold acc*10 + m
    Pipe { k: u32, spin_between: u32 },
    /// spawn a server handling `rounds` requests [reply_to, m] -> m+100; sum of replies
    ReqRep { rounds: u32 },
    /// spawn inner with arg*2, await, +1
    Chain { inner: Box<Node> },
    /// two-source select `! [b, #'int]` where b cannot finish before the select has completed and a
    /// helper sends one message (only one source can ever be ready); then spawn inner with arg+1 and
    /// await: m + r. With `release`, b is let go right before that await, so its completion - owed to the
    /// select that is long over - is reported while the process waits for somebody else.
    SelMsg { inner: Box<Node>, spin: u32, release: bool },
    /// two-source select `! [c, #'int]` where nobody ever sends: yields c's result, +3
    SelProc { inner: Box<Node>, msg_first: bool },
    /// the awaited result carries a heap binary (built from the argument): length + arg
    BinChild { spin: u32, reps: u32 },
    /// await both kids, then select over both (both finished): priority decides -> first kid
    SelDone { a: Box<Node>, b: Box<Node>, swap: bool },
    /// request/reply with the bare handle `&.` as the reply channel (not wrapped in a tuple): the
    /// child receives it with `!#(@'int)`. With `tail`, the requester is reached through a tail call,
    /// so the handle carries a function that was never spawned by name: arg + 8 (or + 7)
    BareReply { tail: bool },
    /// two children (wherever they are placed) and the process itself each mint a ref; the refs are
    /// compared pairwise: every minting is distinct, a ref equals itself: arg + 1
    RefKids,
    /// two selects in a row, each over a process that cannot finish in time and a message the process
    /// sent itself beforehand; the first select's process is released right after it, so its
    /// completion - owed to a select that is over - travels while the second select's own query is
    /// being answered "not finished yet" by the same worker: (arg+5)*100 + arg+6
    SelTwice,
    /// one select over two processes (wherever they are placed): the first finishes at some moment
    /// around the select's query exchange, the second cannot finish before the select is over (it is
    /// released afterwards): (arg+3)*31 + 5
    SelRace { spin: u32 },
    /// a child sends the process a message and THEN finishes; the process selects over the message
    /// and the child: what the child sent before finishing is there before its completion, wherever
    /// the two are placed: arg*31 + arg+1. (Only with the receive source written first: with the
    /// process first, both can be ready at one evaluation and written order legitimately decides.)
    SendThenFinish { spin: u32, msg_first: bool, last: bool },
}

pub struct Gen {
    pub defs: Vec<String>,
    next: usize,
    pub procs: usize,
}

pub const SPIN: &str = "spin = #['int, 'int] { | =[0, acc] => acc | =[n, acc] => [[n, 1] __integer_subtract__, [acc, 2] __integer_add__] ^ }";
pub const RCV: &str = "rcv = #['int, 'int] { | =[0, acc] => acc | =[n, acc] => [[n, 1] __integer_subtract__, [[acc, 10] __integer_multiply__, !'int] __integer_add__] ^ }";
pub const BLK: &str = "blk = #{ !'int }";
pub const SND: &str = "snd = #[(@'int), 'int] { =[to, m], m to }";
pub const SRV: &str = "srv = #'int { | =0 => 0 | =k => { !#[(@'int), 'int] =[from, m], [m, 100] __integer_add__ from, [k, 1] __integer_subtract__ ^ } }";

impl Gen {
    pub fn new() -> Gen {
        Gen { defs: vec![SPIN.to_string(), RCV.to_string(), SRV.to_string(), BLK.to_string(), SND.to_string()], next: 0, procs: 0 }
    }

    pub fn random_node(rng: &mut Rng, depth: u32, budget: &mut i32) -> Node {
        *budget -= 1;
        let leaf = |rng: &mut Rng| Node::Leaf {
            add: rng.range(1, 9) as i64,
            spin: *rng.pick(&[0u32, 0, 3, 10, 40]),
            sleep: if rng.chance(1, 6) { Some(rng.range(1, 30) as u32) } else { None },
        };
        if depth == 0 || *budget <= 0 {
            return leaf(rng);
        }
        match rng.below(13) {
            0..=1 => leaf(rng),
            2..=4 => {
                let n = 1 + rng.usize(3);
                let mut kids = Vec::new();
                for _ in 0..n {
                    kids.push(Self::random_node(rng, depth - 1, budget));
                }
                let mut order: Vec<usize> = (0..kids.len()).collect();
                rng.shuffle(&mut order);
                Node::Join { kids, order, spin: *rng.pick(&[0u32, 0, 5, 30, 80]), double_await: rng.chance(1, 4) }
            }
            5..=6 => {
                *budget -= 1;
                if rng.chance(1, 5) {
                    // a flood: more messages than the environment handles in a small batch when it lags
                    Node::Pipe { k: 24 + rng.below(7) as u32, spin_between: 0 }
                } else {
                    Node::Pipe { k: 1 + rng.below(5) as u32, spin_between: *rng.pick(&[0u32, 0, 4, 15]) }
                }
            }
            7 => {
                *budget -= 1;
                Node::ReqRep { rounds: 1 + rng.below(3) as u32 }
            }
            8 => Node::Chain { inner: Box::new(Self::random_node(rng, depth - 1, budget)) },
            9 => {
                *budget -= 1;
                if rng.chance(1, 4) {
                    match rng.below(3) {
                        0 => Node::RefKids,
                        1 => Node::SelTwice,
                        _ => {
                            if rng.chance(1, 2) {
                                Node::SelRace { spin: *rng.pick(&[0u32, 0, 3, 8, 20, 60]) }
                            } else {
                                Node::SendThenFinish { spin: *rng.pick(&[0u32, 5, 30, 120]), msg_first: true, last: rng.chance(1, 2) }
                            }
                        }
                    }
                } else if rng.chance(1, 3) {
                    Node::BareReply { tail: rng.chance(2, 3) }
                } else {
                    Node::BinChild { spin: *rng.pick(&[0u32, 10, 60, 200]), reps: 1 + rng.below(5) as u32 }
                }
            }
            10 => {
                let a = Self::random_node(rng, depth - 1, budget);
                let b = Self::random_node(rng, depth - 1, budget);
                Node::SelDone { a: Box::new(a), b: Box::new(b), swap: rng.chance(1, 2) }
            }
            _ => {
                if rng.chance(1, 2) {
                    *budget -= 2;
                    Node::SelMsg { inner: Box::new(Self::random_node(rng, depth - 1, budget)), spin: *rng.pick(&[0u32, 0, 6, 25]), release: rng.chance(1, 2) }
                } else {
                    Node::SelProc { inner: Box::new(Self::random_node(rng, depth - 1, budget)), msg_first: rng.chance(1, 2) }
                }
            }
        }
    }

    /// Emit the definition of `node`, return its function name.
    pub fn emit(&mut self, node: &Node) -> String {
        self.procs += 1;
        match node {
            Node::Leaf { add, spin, sleep } => {
                let name = self.fresh();
                let mut body = vec!["=n".to_string()];
                if *spin > 0 {
                    body.push(format!("w = [{spin}, 0] spin"));
                }
                if let Some(ms) = sleep {
                    body.push(format!("s = ! [{ms}]"));
                }
                body.push(format!("[n, {add}] __integer_add__"));
                self.defs.push(format!("{name} = #'int {{ {} }}", body.join(", ")));
                name
            }
            Node::Join { kids, order, spin, double_await } => {
                let kid_names: Vec<String> = kids.iter().map(|k| self.emit(k)).collect();
                let name = self.fresh();
                let mut body = vec!["=n".to_string()];
                for (i, k) in kid_names.iter().enumerate() {
                    body.push(format!("c{i} = [n, {}] __integer_add__ @{k}", i + 1));
                }
                if *spin > 0 {
                    body.push(format!("w = [{spin}, 0] spin"));
                }
                for i in order {
                    body.push(format!("r{i} = !c{i}"));
                    if *double_await {
                        body.push(format!("q{i} = !c{i}"));
                    }
                }
                let mut acc = "0".to_string();
                for i in 0..kids.len() {
                    acc = format!("[[{acc}, 31] __integer_multiply__, r{i}] __integer_add__");
                }
                body.push(acc);
                self.defs.push(format!("{name} = #'int {{ {} }}", body.join(", ")));
                name
            }
            Node::Pipe { k, spin_between } => {
                self.procs += 1;
                let name = self.fresh();
                let mut body = vec!["=n".to_string(), format!("c = [{k}, 0] @rcv")];
                for i in 1..=*k {
                    body.push(format!("[n, {i}] __integer_add__ c"));
                    if *spin_between > 0 {
                        body.push(format!("w{i} = [{spin_between}, 0] spin"));
                    }
                }
                body.push("!c".to_string());
                self.defs.push(format!("{name} = #'int {{ {} }}", body.join(", ")));
                name
            }
            Node::ReqRep { rounds } => {
                self.procs += 1;
                let name = self.fresh();
                let mut body = vec!["=n".to_string(), format!("s = {rounds} @srv")];
                for i in 1..=*rounds {
                    body.push(format!("[&., [n, {i}] __integer_add__] s"));
                    body.push(format!("a{i} = !'int"));
                }
                body.push("z = !s".to_string());
                let mut acc = "0".to_string();
                for i in 1..=*rounds {
                    acc = format!("[{acc}, a{i}] __integer_add__");
                }
                body.push(acc);
                self.defs.push(format!("{name} = #'int {{ {} }}", body.join(", ")));
                name
            }
            Node::Chain { inner } => {
                let k = self.emit(inner);
                let name = self.fresh();
                self.defs.push(format!("{name} = #'int {{ =n, c = [n, 2] __integer_multiply__ @{k}, r = !c, [r, 1] __integer_add__ }}"));
                name
            }
            Node::SelMsg { inner, spin, release } => {
                self.procs += 2;
                let k = self.emit(inner);
                let name = self.fresh();
                let mut body = vec!["=n".to_string(), "b = @blk".to_string(), "h = [&., [n, 7] __integer_add__] @snd".to_string()];
                if *spin > 0 {
                    body.push(format!("w = [{spin}, 0] spin"));
                }
                body.push("m = ! [b, #'int]".to_string());
                body.push(format!("c = [n, 1] __integer_add__ @{k}"));
                if *release {
                    body.push("1 b".to_string());
                }
                body.push("r = !c".to_string());
                body.push("[m, r] __integer_add__".to_string());
                self.defs.push(format!("{name} = #'int {{ {} }}", body.join(", ")));
                name
            }
            Node::BinChild { spin, reps } => {
                self.procs += 1;
                let name = self.fresh();
                let sp = if *spin > 0 { format!("w = [{spin}, 0] spin, ") } else { String::new() };
                self.defs.push(format!("{name} = #'int {{ =n, c = n @#'int {{ =m, {sp}[[0x0a0b, {reps}] __binary_repeat__, 0xff] __binary_concat__ }}, b = !c, [b __binary_length__, n] __integer_add__ }}"));
                name
            }
            Node::SendThenFinish { spin, msg_first, last } => {
                self.procs += 3;
                if !self.defs.iter().any(|d| d.starts_with("stf = ")) {
                    self.defs.push("stf = #[(@-> 'int), (@'int), 'int] { =[g, to, m], x = !g, m to, [m, 1] __integer_add__ }".to_string());
                    // the send is the child's LAST instruction: it finishes in the very executor step that
                    // routes the message, so the worker reports the completion and the message together
                    self.defs.push("stl = #[(@-> 'int), (@'int), 'int] { =[g, to, m], x = !g, m to }".to_string());
                    self.defs.push("stpick = #('int | (@'int)) { | ='int => ~ | 999983 }".to_string());
                    self.defs.push("rel = #[(@'int), 'int] { =[t, s], w = [s, 0] spin, 1 t }".to_string());
                }
                let name = self.fresh();
                let sel = if *msg_first { "! [#'int, p]" } else { "! [p, #'int]" };
                if *last {
                    self.defs.push(format!("{name} = #'int {{ =n, me = &., g = @blk, p = [&g, &me, n] @stl, r = [&g, {spin}] @rel, y = {sel} stpick, z = !p, [[y, 31] __integer_multiply__, [n, 1] __integer_add__] __integer_add__ }}"));
                } else {
                    self.defs.push(format!("{name} = #'int {{ =n, me = &., g = @blk, p = [&g, &me, n] @stf, r = [&g, {spin}] @rel, y = {sel}, [[y, 31] __integer_multiply__, !p] __integer_add__ }}"));
                }
                name
            }
            Node::SelRace { spin } => {
                self.procs += 2;
                let name = self.fresh();
                self.defs.push(format!("{name} = #'int {{ =n, t1 = n @#'int {{ =m, w = [{spin}, 0] spin, [m, 3] __integer_add__ }}, t2 = @blk, r = ! [t1, t2], 5 t2, [[r, 31] __integer_multiply__, !t2] __integer_add__ }}"));
                name
            }
            Node::SelTwice => {
                self.procs += 3;
                let name = self.fresh();
                self.defs.push(format!("{name} = #'int {{ =n, t1 = @blk, d = @#{{ 0 }}, t2 = @blk, me = &., [n, 5] __integer_add__ me, [n, 6] __integer_add__ me, x = ! [t1, #'int], 1 t1, y = ! [t2, #'int], [[x, 100] __integer_multiply__, y] __integer_add__ }}"));
                name
            }
            Node::RefKids => {
                self.procs += 2;
                let name = self.fresh();
                self.defs.push(format!("{name} = #'int {{ =n, c0 = @#{{ __reference__ }}, c1 = @#{{ __reference__ }}, r0 = !c0, r1 = !c1, r2 = __reference__, e0 = [r0, r1] {{ | =[x, x] => 1 | 0 }}, e1 = [r0, r2] {{ | =[x, x] => 1 | 0 }}, e2 = [r1, r2] {{ | =[x, x] => 1 | 0 }}, e3 = [r0, r0] {{ | =[x, x] => 1 | 0 }}, [[n, e0] __integer_add__, [[e1, e2] __integer_add__, e3] __integer_add__] __integer_add__ }}"));
                name
            }
            Node::BareReply { tail } => {
                self.procs += 1;
                let inner = self.fresh();
                self.defs.push(format!("{inner} = #'int {{ =n, c = @#{{ from = !#(@'int), [n, 7] __integer_add__ from }}, &. c, !#'int }}"));
                if *tail {
                    let name = self.fresh();
                    self.defs.push(format!("{name} = #'int {{ =n, [n, 1] __integer_add__ ^{inner} }}"));
                    name
                } else {
                    inner
                }
            }
            Node::SelDone { a, b, swap } => {
                let ka = self.emit(a);
                let kb = self.emit(b);
                let name = self.fresh();
                let (first, second) = if *swap { ("cb", "ca") } else { ("ca", "cb") };
                self.defs.push(format!("{name} = #'int {{ =n, ca = [n, 1] __integer_add__ @{ka}, cb = [n, 2] __integer_add__ @{kb}, x = !{second}, y = !{first}, s = ! [{first}, {second}], [[x, 31] __integer_multiply__, s] __integer_add__ }}"));
                name
            }
            Node::SelProc { inner, msg_first } => {
                let k = self.emit(inner);
                let name = self.fresh();
                let sel = if *msg_first { "! [#'int, c]" } else { "! [c, #'int]" };
                self.defs.push(format!("{name} = #'int {{ =n, c = [n, 1] __integer_add__ @{k}, r = {sel}, [r, 3] __integer_add__ }}"));
                name
            }
        }
    }

    fn fresh(&mut self) -> String {
        let n = format!("f{}", self.next);
        self.next += 1;
        n
    }
}

pub fn eval(node: &Node, arg: i128) -> i128 {
    match node {
        Node::Leaf { add, .. } => arg + *add as i128,
        Node::Join { kids, .. } => {
            let mut acc = 0i128;
            for (i, k) in kids.iter().enumerate() {
                acc = acc * 31 + eval(k, arg + i as i128 + 1);
            }
            acc
        }
        Node::Pipe { k, .. } => {
            let mut acc = 0i128;
            for i in 1..=*k {
                acc = acc * 10 + (arg + i as i128);
            }
            acc
        }
        Node::ReqRep { rounds } => (1..=*rounds).map(|i| arg + i as i128 + 100).sum(),
        Node::Chain { inner } => eval(inner, arg * 2) + 1,
        Node::SelMsg { inner, .. } => arg + 7 + eval(inner, arg + 1),
        Node::SelProc { inner, .. } => eval(inner, arg + 1) + 3,
        Node::BinChild { reps, .. } => (2 * *reps as i128 + 1) + arg,
        Node::BareReply { tail } => arg + 7 + *tail as i128,
        Node::RefKids => arg + 1,
        Node::SelTwice => (arg + 5) * 100 + arg + 6,
        Node::SelRace { .. } => (arg + 3) * 31 + 5,
        Node::SendThenFinish { .. } => arg * 31 + arg + 1,
        Node::SelDone { a, b, swap } => {
            let (va, vb) = (eval(a, arg + 1), eval(b, arg + 2));
            let (first, second) = if *swap { (vb, va) } else { (va, vb) };
            second * 31 + first
        }
    }
}

pub fn shape(node: &Node, h: &mut crate::rng::Fnv) {
    match node {
        Node::Leaf { spin, sleep, .. } => {
            h.u64(1);
            h.u64(*spin as u64);
            h.u64(sleep.is_some() as u64);
        }
        Node::Join { kids, order, spin, double_await } => {
            h.u64(2);
            h.u64(*spin as u64);
            h.u64(*double_await as u64);
            for o in order {
                h.u64(*o as u64);
            }
            for k in kids {
                shape(k, h);
            }
        }
        Node::Pipe { k, spin_between } => {
            h.u64(3);
            h.u64(*k as u64);
            h.u64(*spin_between as u64);
        }
        Node::ReqRep { rounds } => {
            h.u64(4);
            h.u64(*rounds as u64);
        }
        Node::Chain { inner } => {
            h.u64(5);
            shape(inner, h);
        }
        Node::SelMsg { inner, spin, release } => {
            h.u64(6);
            h.u64(*spin as u64);
            h.u64(*release as u64);
            shape(inner, h);
        }
        Node::SelProc { inner, msg_first } => {
            h.u64(7);
            h.u64(*msg_first as u64);
            shape(inner, h);
        }
        Node::BinChild { spin, reps } => {
            h.u64(8);
            h.u64(*spin as u64);
            h.u64(*reps as u64);
        }
        Node::SelDone { a, b, swap } => {
            h.u64(9);
            h.u64(*swap as u64);
            shape(a, h);
            shape(b, h);
        }
        Node::BareReply { tail } => {
            h.u64(10);
            h.u64(*tail as u64);
        }
        Node::RefKids => h.u64(11),
        Node::SelTwice => h.u64(12),
        Node::SendThenFinish { spin, msg_first, last } => {
            h.u64(14);
            h.u64(*spin as u64);
            h.u64(*msg_first as u64);
            h.u64(*last as u64);
        }
        Node::SelRace { spin } => {
            h.u64(13);
            h.u64(*spin as u64);
        }
    }
}

pub fn has_sleep(node: &Node) -> bool {
    match node {
        Node::Leaf { sleep, .. } => sleep.is_some(),
        Node::Join { kids, .. } => kids.iter().any(has_sleep),
        Node::Chain { inner } | Node::SelMsg { inner, .. } | Node::SelProc { inner, .. } => has_sleep(inner),
        Node::SelDone { a, b, .. } => has_sleep(a) || has_sleep(b),
        _ => false,
    }
}

pub fn noise_ops(rng: &mut Rng) -> Vec<ClientOp> {
    let mut v = Vec::new();
    if rng.chance(1, 3) {
        let n = 1 + rng.usize(3);
        for _ in 0..n {
            v.push(ClientOp::Noise(match rng.below(7) {
                0 => Noise::Statuses,
                1 => Noise::WorkerInfo,
                2 => Noise::ProcInfo(rng.usize(8)),
                3 => Noise::SubStatuses,
                4 => Noise::SubWorkerInfo,
                5 => Noise::SubProcInfo(rng.usize(8)),
                _ => Noise::Unsub,
            }));
        }
    }
    v
}

impl Property for C03 {
    fn id(&self) -> &'static str {
        "C03"
    }
    fn cases(&self, tier: Tier) -> usize {
        match tier {
            Tier::Quick => 800,
            Tier::Thorough => 2400,
        }
    }
    fn variants(&self, tier: Tier) -> usize {
        match tier {
            Tier::Quick => 40,
            Tier::Thorough => 300,
        }
    }
    fn rule_text(&self) -> &'static str {
        "cases: generated confluent programs (await trees, single-sender pipelines, request/reply, chains, late and double awaits, sleep-only timeouts, compute loops), each run once under the reference configuration (1 worker, quantum 1000, fair, everything visible) and under V sampled (worker count 1-6, quantum, scheduler kind, message visibility, JSON transport, drive mode, clock, observer requests - statuses, infos, results of running processes - issued at moments the scheduler picks) variants; a result request issued while a process runs must be answered with that process's result; a run is non-trivial if it used >=2 workers, handled >=1 message while an older message to another consumer was still queued (or had an injected fault) and finished conclusively; distinct = distinct (scenario shape hash, interleaving hash) pairs, counted in a set"
    }
    fn required_probes(&self) -> Vec<&'static str> {
        vec!["observer_requests_mid_run", "result_requests_answered_mid_run"]
    }
    fn generate(&self, rng: &mut Rng, _tier: Tier) -> Scenario {
        let mut budget = 6i32;
        let root = Gen::random_node(rng, 3, &mut budget);
        let arg = rng.range(1, 50) as i128;
        let mut g = Gen::new();
        let name = g.emit(&root);
        let expected = eval(&root, arg);
        let mut expected_s = expected.to_string();
        let mut h = crate::rng::Fnv::default();
        shape(&root, &mut h);
        let run_path = rng.chance(1, 4);
        let mut ops = Vec::new();
        let family;
        if run_path {
            family = "c03-run-path";
            let src = format!("{}, #{{ p = {arg} @{name}, !p }}", g.defs.join(", "));
            ops.extend(noise_ops(rng));
            ops.push(ClientOp::Run { src, shake: rng.chance(1, 2), json: rng.chance(1, 2), wait: true });
        } else if rng.chance(1, 3) {
            family = "c03-repl-multiline";
            // a server spawned on the first line waits for a function; the function is defined on a later
            // line and sent on the last: code reaches the server's worker inside a value, after that
            // worker was last given anything to start
            let late = rng.chance(1, 2);
            let (k, a_inc) = (rng.range(1, 40), rng.range(1, 40));
            if late {
                ops.push(ClientOp::Line { session: 0, src: format!("srvq = @#{{ f = !#(#'int -> 'int), {k} f }}, Ok") });
                h.u64(0x1a7e);
            }
            // definitions on earlier lines, body on the last
            let split = 1 + rng.usize(g.defs.len().max(1));
            let (a, b) = g.defs.split_at(split.min(g.defs.len()));
            ops.push(ClientOp::Line { session: 0, src: a.join(", ") });
            ops.extend(noise_ops(rng));
            if !b.is_empty() {
                ops.push(ClientOp::Line { session: 0, src: b.join(", ") });
            }
            if late {
                ops.push(ClientOp::Line { session: 0, src: format!("incq = #'int {{ [~, {a_inc}] __integer_add__ }}") });
                if rng.chance(1, 2) {
                    ops.push(ClientOp::Line { session: 0, src: format!("&incq srvq, y = !srvq, p = {arg} @{name}, x = !p, [x, y]") });
                } else {
                    ops.push(ClientOp::Line { session: 0, src: format!("p = {arg} @{name}, x = !p, &incq srvq, y = !srvq, [x, y]") });
                }
                expected_s = format!("[{expected}, {}]", k + a_inc);
            } else {
                ops.push(ClientOp::Line { session: 0, src: format!("p = {arg} @{name}, !p") });
            }
        } else {
            family = "c03-repl";
            ops.extend(noise_ops(rng));
            ops.push(ClientOp::Line { session: 0, src: format!("{}, p = {arg} @{name}, !p", g.defs.join(", ")) });
        }
        Scenario {
            family: family.to_string(),
            ops,
            modules: vec![],
            files: Default::default(),
            timing: has_sleep(&root),
            io: false,
            fixed_faults: Default::default(),
            expect: serde_json::json!({ "value": expected_s }),
            shape: h.0,
            est_len: 100,
            min_quantum: 0,
        }
    }
    fn monitor(&self, _scn: &Scenario) -> Box<dyn Monitor + Send> {
        Box::new(NoMonitor)
    }
    fn judge(&self, scn: &Scenario, refdata: Option<&RefData>, r: &RunResult) -> Vec<Violation> {
        let mut v = Vec::new();
        let expected = scn.expect["value"].as_str().unwrap_or("").to_string();
        // (1) the client's final value equals the model's
        match r.outs.last() {
            Some(Out::Value(s)) if *s == expected => {}
            Some(Out::RuntimeError(e)) => v.push(Violation::new("C03", "process-failed", &classify_error(e), format!("entry process failed with {e}; expected {expected}"), r.steps)),
            other => v.push(Violation::new("C03", "result-mismatch", "client-result", format!("client result {:?}, model expects {expected}", other), r.steps)),
        }
        // (2) no process failed
        for (path, res) in &r.procs {
            if res.starts_with("ERR(") {
                v.push(Violation::new("C03", "process-failed", &classify_error(res), format!("process {path} failed: {res}"), r.steps));
                break;
            }
        }
        // (3) per-process results equal the reference's
        if let Some(rd) = refdata {
            if rd.procs != r.procs && v.is_empty() {
                let diff: Vec<String> = rd
                    .procs
                    .iter()
                    .filter(|(k, x)| r.procs.get(*k) != Some(x))
                    .map(|(k, x)| format!("{k}: ref={x} got={:?}", r.procs.get(k)))
                    .chain(r.procs.iter().filter(|(k, _)| !rd.procs.contains_key(*k)).map(|(k, x)| format!("{k}: ref=<absent> got={x}")))
                    .take(4)
                    .collect();
                v.push(Violation::new("C03", "result-mismatch", "per-process", format!("per-process results differ from the reference run: {}", diff.join("; ")), r.steps));
            }
            if rd.outs != r.outs && v.is_empty() {
                v.push(Violation::new("C03", "result-mismatch", "client-outputs", format!("client outputs {:?} differ from reference {:?}", r.outs, rd.outs), r.steps));
            }
        }
        v
    }
}

/// A stable cause label from a runtime error's text.
pub fn classify_error(e: &str) -> String {
    for k in ["StackUnderflow", "TypeMismatch", "InvalidArgument", "FrameUnderflow", "VariableUndefined", "FieldAccessInvalid", "CallInvalid", "OperationNotAllowed", "FunctionUndefined", "ConstantUndefined", "ArityMismatch"] {
        if e.contains(k) {
            return k.to_string();
        }
    }
    "other".to_string()
}
