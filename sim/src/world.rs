//! The simulated world: real Environment + real Workers over the simulated transport, a
//! simulated effect backend and a virtual clock; every step is an explicit scheduler decision.

use crate::backend::{BackendRef, BackendState, FaultKind, SimBackend};
use crate::transport::{E, Shared, SharedRef, SimHandle, SimRx, SimTx};
use quiver_core::builtins::BuiltinRegistry;
use quiver_environment::{Command, Environment, Worker, WorkerHandle};
use serde::{Deserialize, Serialize};
use std::collections::BTreeMap;
use std::panic::{AssertUnwindSafe, catch_unwind};

pub type SimWorker = Worker<E, SimRx, SimTx>;

#[derive(Clone, Debug, Serialize, Deserialize, PartialEq)]
pub enum Decision {
    /// step worker `i`, letting it receive up to `take` queued commands, with time slice `q`
    W { i: usize, take: usize, q: usize },
    /// step the environment, letting it receive up to take[w] queued events of worker w
    /// (missing entries = all)
    E { take: Vec<usize> },
    /// client protocol action
    C,
    /// release the k-th pending async backend completion
    B { k: usize },
    /// advance virtual time by dt ms
    T { dt: u64 },
    /// step the wall clock backwards by `back` ms (no true time passes)
    J { back: u64 },
    /// an observer request issued by the host at this moment, whatever the client script is waiting
    /// for: k selects the kind (statuses, worker info, process info, the result of some process)
    N { k: u64 },
}

pub const ALL: usize = usize::MAX / 2;

#[derive(Clone, Debug, Serialize, Deserialize)]
pub struct RunCfg {
    pub nworkers: usize,
    pub json: bool,
    pub event_driven: bool,
    pub sync_io: bool,
    pub clock_start: u64,
    pub clock_offsets: Vec<i64>,
    pub faults: BTreeMap<u64, FaultKind>,
    pub files: BTreeMap<String, Vec<u8>>,
    pub max_steps: u64,
    pub flush_subscriptions: bool,
    /// the builtin registry of a host that runs programs but has no I/O implementations (quiver-web's
    /// worker: `core_modules()` only, I/O builtins registered for their signature)
    #[serde(default)]
    pub io_signatures_only: bool,
    /// the REPL client keeps its session after a runtime error (quiver-web's glue) instead of starting
    /// a fresh one (quiver-cli): the next line resumes the failed process
    #[serde(default)]
    pub keep_session_after_error: bool,
    /// a host that has the I/O builtins but could not set up an effect backend (quiver-cli when
    /// io_uring is unavailable)
    #[serde(default)]
    pub no_effect_backend: bool,
}

impl RunCfg {
    pub fn reference() -> RunCfg {
        RunCfg {
            nworkers: 1,
            json: false,
            event_driven: false,
            sync_io: false,
            clock_start: 1_000_000,
            clock_offsets: vec![0],
            faults: BTreeMap::new(),
            files: BTreeMap::new(),
            max_steps: 200_000,
            flush_subscriptions: false,
            io_signatures_only: false,
            keep_session_after_error: false,
            no_effect_backend: false,
        }
    }
}

#[derive(Clone, Debug, Default)]
pub struct StepOutcome {
    /// 0 = env/client thread, 1+i = worker i
    pub actor: usize,
    pub did_work: bool,
    /// panic message or Err(..) from Worker::step / Environment::step
    pub failure: Option<String>,
    pub panicked: bool,
    /// worker turn: the clock value passed
    pub clock: Option<u64>,
    pub quantum: usize,
}

pub struct World {
    pub cfg: RunCfg,
    pub sh: SharedRef,
    pub env: Environment<E>,
    pub workers: Vec<SimWorker>,
    pub backend: BackendRef,
    /// true virtual time (ms)
    pub tau: u64,
    /// wall clock = tau + skew (+ per-worker offset); backward steps decrease skew
    pub skew: i64,
    pub steps: u64,
    pub builtins: BuiltinRegistry<E>,
    pub dead: bool,
    /// pid -> spawn path, learned from the commands the transport carried
    pub pid_names: BTreeMap<usize, String>,
    pub children: BTreeMap<usize, usize>,
    pub roots: usize,
    pub parent: BTreeMap<usize, usize>,
    scanned_msgs: usize,
    /// decision counts by kind, fault counters
    pub counts: BTreeMap<&'static str, u64>,
}

pub fn make_builtins(io_signatures_only: bool) -> BuiltinRegistry<E> {
    let mut b = BuiltinRegistry::<E>::with_modules(&quiver_core::builtins::core_modules());
    if !io_signatures_only {
        quiver_io::attach_file_builtins(&mut b);
        quiver_io::attach_network_builtins(&mut b);
    }
    b
}

impl World {
    pub fn new(cfg: RunCfg, keep_log: bool) -> World {
        let sh = Shared::new(cfg.nworkers, cfg.json, keep_log);
        let builtins = make_builtins(cfg.io_signatures_only);
        let mut handles: Vec<Box<dyn WorkerHandle<E>>> = Vec::new();
        let mut workers = Vec::new();
        for w in 0..cfg.nworkers {
            handles.push(Box::new(SimHandle { w, sh: sh.clone() }));
            workers.push(Worker::new(
                SimRx { w, sh: sh.clone() },
                SimTx { w, sh: sh.clone() },
                builtins.clone(),
                false,
                w as u16,
            ));
        }
        let backend = BackendState::new(cfg.files.clone(), cfg.faults.clone(), cfg.sync_io);
        let mut env = Environment::<E>::new(handles);
        if !cfg.no_effect_backend {
            env.set_effect_backend(Box::new(SimBackend(backend.clone())));
        }
        let tau = cfg.clock_start;
        World {
            cfg,
            sh,
            env,
            workers,
            backend,
            tau,
            skew: 0,
            steps: 0,
            builtins,
            dead: false,
            pid_names: BTreeMap::new(),
            children: BTreeMap::new(),
            roots: 0,
            parent: BTreeMap::new(),
            scanned_msgs: 0,
            counts: BTreeMap::new(),
        }
    }

    pub fn clock(&self, w: usize) -> u64 {
        let off = self.cfg.clock_offsets.get(w).copied().unwrap_or(0);
        (self.tau as i64 + self.skew + off).max(0) as u64
    }

    /// tau at which worker w's clock reads `t`
    pub fn tau_of(&self, w: usize, t: u64) -> u64 {
        let off = self.cfg.clock_offsets.get(w).copied().unwrap_or(0);
        (t as i64 - self.skew - off).max(0) as u64
    }

    fn count(&mut self, k: &'static str) {
        *self.counts.entry(k).or_insert(0) += 1;
    }

    fn begin(&mut self, actor: usize) {
        self.steps += 1;
        let mut sh = self.sh.lock().unwrap();
        sh.step = self.steps;
        sh.begin_turn(actor);
        drop(sh);
        self.backend.lock().unwrap().step = self.steps;
    }

    /// Begin a client turn (direct calls into the environment on the environment thread).
    pub fn begin_client_turn(&mut self) {
        self.begin(0);
        self.count("client");
    }

    pub fn step_worker(&mut self, i: usize, take: usize, q: usize) -> StepOutcome {
        let i = i % self.cfg.nworkers;
        let q = q.max(1);
        self.begin(1 + i);
        self.count("worker_step");
        {
            let mut sh = self.sh.lock().unwrap();
            let n = sh.cmd_q[i].len();
            sh.cmd_allow[i] = take.min(n);
            if take < n {
                drop(sh);
                self.count("partial_visibility_cmd");
            }
        }
        let t = self.clock(i);
        quiver_core::verif::set_slice_override(Some(q));
        let r = catch_unwind(AssertUnwindSafe(|| self.workers[i].step(t)));
        quiver_core::verif::set_slice_override(None);
        let mut out = StepOutcome { actor: 1 + i, clock: Some(t), quantum: q, ..Default::default() };
        match r {
            Ok(Ok(w)) => out.did_work = w,
            Ok(Err(e)) => {
                out.failure = Some(format!("Worker::step returned Err: {e}"));
                self.dead = true;
            }
            Err(p) => {
                out.failure = Some(format!("Worker::step panicked: {}", panic_msg(&p)));
                out.panicked = true;
                self.dead = true;
            }
        }
        if self.cfg.flush_subscriptions && !self.dead {
            let force = !self.workers[i].has_runnable();
            let _ = self.workers[i].flush_subscriptions(t, force);
        }
        self.sh.lock().unwrap().cmd_allow[i] = 0;
        self.scan_new_msgs();
        out
    }

    pub fn step_env(&mut self, take: &[usize]) -> StepOutcome {
        self.begin(0);
        self.count("env_step");
        let mut partial = false;
        {
            let mut sh = self.sh.lock().unwrap();
            for w in 0..self.cfg.nworkers {
                let n = sh.evt_q[w].len();
                let t = take.get(w).copied().unwrap_or(ALL);
                sh.evt_allow[w] = t.min(n);
                if t < n {
                    partial = true;
                }
            }
        }
        if partial {
            self.count("partial_visibility_evt");
        }
        let r = catch_unwind(AssertUnwindSafe(|| self.env.step()));
        let mut out = StepOutcome { actor: 0, ..Default::default() };
        match r {
            Ok(Ok(w)) => out.did_work = w,
            Ok(Err(e)) => {
                out.failure = Some(format!("Environment::step returned Err: {e}"));
                self.dead = true;
            }
            Err(p) => {
                out.failure = Some(format!("Environment::step panicked: {}", panic_msg(&p)));
                out.panicked = true;
                self.dead = true;
            }
        }
        {
            let mut sh = self.sh.lock().unwrap();
            for w in 0..self.cfg.nworkers {
                sh.evt_allow[w] = 0;
            }
        }
        self.scan_new_msgs();
        out
    }

    pub fn release_backend(&mut self, k: usize) -> bool {
        self.steps += 1;
        self.sh.lock().unwrap().step = self.steps;
        let mut b = self.backend.lock().unwrap();
        let reordered = k > 0 && b.pending.len() > 1;
        let r = b.release(k);
        drop(b);
        if r {
            self.count("backend_release");
            if reordered {
                self.count("backend_reordered");
            }
        }
        r
    }

    pub fn advance(&mut self, dt: u64) {
        self.steps += 1;
        self.tau += dt;
        self.count("time_advance");
    }

    pub fn jump_back(&mut self, back: u64) {
        self.steps += 1;
        self.skew -= back as i64;
        self.count("clock_step_back");
    }

    /// Learn pid names from the commands the transport carried since the last scan.
    pub fn scan_new_msgs(&mut self) {
        let sh = self.sh.lock().unwrap();
        let n = sh.msgs.len();
        let mut learned: Vec<(usize, Option<usize>)> = Vec::new();
        for id in self.scanned_msgs..n {
            match sh.cmd(id) {
                Some(Command::StartProcess { id, .. }) => learned.push((*id, None)),
                Some(Command::NotifySpawn { process_id, spawned_pid, .. }) => {
                    learned.push((*spawned_pid, Some(*process_id)))
                }
                _ => {}
            }
        }
        drop(sh);
        self.scanned_msgs = n;
        for (pid, parent) in learned {
            match parent {
                None => {
                    let name = format!("R{}", self.roots);
                    self.roots += 1;
                    self.pid_names.insert(pid, name);
                }
                Some(p) => {
                    let k = self.children.entry(p).or_insert(0);
                    let pname = self.pid_names.get(&p).cloned().unwrap_or_else(|| format!("?{}", p));
                    self.pid_names.insert(pid, format!("{}/{}", pname, *k));
                    *k += 1;
                    self.parent.insert(pid, p);
                }
            }
        }
    }

    pub fn worker_of(&self, pid: usize) -> Option<usize> {
        self.env.verif_router().iter().find(|(p, _)| *p == pid).map(|(_, w)| *w)
    }

    /// Nothing can ever happen again without a client action.
    pub fn quiescent(&self) -> bool {
        let sh = self.sh.lock().unwrap();
        if !sh.all_empty() {
            return false;
        }
        drop(sh);
        let b = self.backend.lock().unwrap();
        if !b.pending.is_empty() || !b.ready.is_empty() {
            return false;
        }
        drop(b);
        self.workers.iter().all(|w| !w.has_runnable() && w.next_timeout_ms().is_none())
    }

    /// Earliest tau at which some worker's pending select timeout expires.
    pub fn next_deadline_tau(&self) -> Option<u64> {
        let mut best: Option<u64> = None;
        for (i, w) in self.workers.iter().enumerate() {
            if let Some(t) = w.next_timeout_ms() {
                let tau = self.tau_of(i, t);
                best = Some(best.map_or(tau, |b: u64| b.min(tau)));
            }
        }
        best
    }

    pub fn view(&self) -> View {
        let sh = self.sh.lock().unwrap();
        let cmds: Vec<usize> = (0..self.cfg.nworkers).map(|w| sh.pending_cmds(w)).collect();
        let evts: Vec<usize> = (0..self.cfg.nworkers).map(|w| sh.pending_evts(w)).collect();
        drop(sh);
        let b = self.backend.lock().unwrap();
        let (bp, br) = (b.pending.len(), b.ready.len());
        drop(b);
        let mut runnable = Vec::new();
        let mut timer_due = Vec::new();
        for (i, w) in self.workers.iter().enumerate() {
            runnable.push(w.has_runnable());
            timer_due.push(w.next_timeout_ms().is_some_and(|t| self.clock(i) >= t));
        }
        View { cmds, evts, runnable, timer_due, backend_pending: bp, backend_ready: br, next_deadline: self.next_deadline_tau(), tau: self.tau }
    }
}

#[derive(Clone, Debug)]
pub struct View {
    pub cmds: Vec<usize>,
    pub evts: Vec<usize>,
    pub runnable: Vec<bool>,
    pub timer_due: Vec<bool>,
    pub backend_pending: usize,
    pub backend_ready: usize,
    pub next_deadline: Option<u64>,
    pub tau: u64,
}

impl View {
    pub fn worker_useful(&self, i: usize) -> bool {
        self.cmds[i] > 0 || self.runnable[i] || self.timer_due[i]
    }
    pub fn env_useful(&self) -> bool {
        self.evts.iter().any(|n| *n > 0) || self.backend_ready > 0
    }
}

pub fn panic_msg(p: &Box<dyn std::any::Any + Send>) -> String {
    if let Some(s) = p.downcast_ref::<&str>() {
        s.to_string()
    } else if let Some(s) = p.downcast_ref::<String>() {
        s.clone()
    } else {
        "<non-string panic>".to_string()
    }
}
