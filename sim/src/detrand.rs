//! Deterministic `RandomState`: std's Linux `hashmap_random_keys` calls `getrandom` through a
//! weak symbol; defining it here makes every HashMap/HashSet iteration order a pure function of
//! a thread-local seed. Keys are fetched once per thread, so each simulated run executes on a
//! fresh thread after `set_thread_seed`.

use std::cell::Cell;

thread_local! {
    static HSEED: Cell<u64> = const { Cell::new(0x0123_4567_89ab_cdef) };
    static HCTR: Cell<u64> = const { Cell::new(0) };
}

pub fn set_thread_seed(seed: u64) {
    HSEED.with(|c| c.set(seed));
    HCTR.with(|c| c.set(0));
}

#[unsafe(no_mangle)]
pub unsafe extern "C" fn getrandom(buf: *mut libc::c_void, len: libc::size_t, _flags: libc::c_uint) -> libc::ssize_t {
    let seed = HSEED.with(|c| c.get());
    let out = buf as *mut u8;
    let mut i = 0usize;
    while i < len {
        let ctr = HCTR.with(|c| {
            let v = c.get();
            c.set(v + 1);
            v
        });
        let mut z = seed.wrapping_add(ctr.wrapping_mul(0x9E37_79B9_7F4A_7C15)).wrapping_add(0x9E37_79B9_7F4A_7C15);
        z = (z ^ (z >> 30)).wrapping_mul(0xBF58_476D_1CE4_E5B9);
        z = (z ^ (z >> 27)).wrapping_mul(0x94D0_49BB_1331_11EB);
        z ^= z >> 31;
        let bytes = z.to_le_bytes();
        let mut k = 0;
        while k < 8 && i < len {
            unsafe { *out.add(i) = bytes[k] };
            i += 1;
            k += 1;
        }
    }
    len as libc::ssize_t
}
