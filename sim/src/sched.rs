//! Schedulers: seeded generators of decisions. Swarm style: kind and parameters are drawn per run.

use crate::client::Client;
use crate::rng::Rng;
use crate::world::{ALL, Decision, View, World};
use serde::{Deserialize, Serialize};

#[derive(Clone, Debug, Serialize, Deserialize, PartialEq)]
pub enum SchedKind {
    Uniform,
    /// PCT-style: strict priorities with `d` change points
    Pct { d: usize },
    /// fair rotation with at most k random deviations
    DelayBounded { k: usize },
    /// everything shown one message at a time
    OneAtATime,
    /// one actor frozen for a window of steps (actor: 0 env, 1+i worker i)
    Stall { actor: usize, from: u64, len: u64 },
}

#[derive(Clone, Debug, Serialize, Deserialize, PartialEq)]
pub enum Quantum {
    Fixed(usize),
    PerTurn,
}

pub const QUANTA: [usize; 8] = [1, 2, 3, 5, 8, 13, 50, 1000];

#[derive(Clone, Debug, Serialize, Deserialize)]
pub struct SchedSpec {
    pub kind: SchedKind,
    pub quantum: Quantum,
    /// probability (percent) that a step sees everything queued for it
    pub take_all_pct: u64,
    /// weight of a spontaneous time advance relative to 100 for a useful actor (0 = only when idle)
    pub time_weight: u64,
    pub max_dt: u64,
    /// percent chance per time decision of a backward wall-clock step
    pub jump_back_pct: u64,
    /// weight of stepping an actor that has nothing to do (polling mode only)
    pub idle_weight: u64,
    pub actor_weights: Vec<u64>,
    /// after this many decisions the canonical fair fault-free tail takes over
    pub fault_stop: u64,
    /// percent chance per decision of an observer request issued mid-run (Decision::N)
    #[serde(default)]
    pub observer_pct: u64,
}

impl SchedSpec {
    pub fn fair() -> SchedSpec {
        SchedSpec {
            kind: SchedKind::Uniform,
            quantum: Quantum::Fixed(1000),
            take_all_pct: 100,
            time_weight: 0,
            max_dt: 1,
            jump_back_pct: 0,
            idle_weight: 0,
            actor_weights: vec![],
            fault_stop: 0,
            observer_pct: 0,
        }
    }

    pub fn draw(rng: &mut Rng, nworkers: usize, timing: bool, est_len: u64) -> SchedSpec {
        let kind = match rng.below(10) {
            0..=3 => SchedKind::Uniform,
            4..=5 => SchedKind::Pct { d: rng.usize(5) },
            6 => SchedKind::DelayBounded { k: 1 + rng.usize(6) },
            7 => SchedKind::OneAtATime,
            _ => SchedKind::Stall { actor: rng.usize(nworkers + 1), from: rng.below(est_len.max(1)), len: 5 + rng.below(est_len.max(10)) },
        };
        let quantum = if rng.chance(1, 4) { Quantum::PerTurn } else { Quantum::Fixed(*rng.pick(&QUANTA)) };
        let mut actor_weights = Vec::new();
        for _ in 0..(nworkers + 2) {
            actor_weights.push(*rng.pick(&[20u64, 50, 100, 100, 100, 200, 400]));
        }
        SchedSpec {
            kind,
            quantum,
            take_all_pct: *rng.pick(&[0u64, 30, 60, 90, 100]),
            time_weight: if timing { *rng.pick(&[0u64, 5, 20, 60]) } else { *rng.pick(&[0u64, 0, 5]) },
            max_dt: *rng.pick(&[1u64, 3, 10, 40]),
            jump_back_pct: if timing { *rng.pick(&[0u64, 0, 5, 20]) } else { 0 },
            idle_weight: *rng.pick(&[0u64, 2, 10]),
            actor_weights,
            fault_stop: est_len / 2 + rng.below(est_len * 3 + 1),
            observer_pct: *rng.pick(&[0u64, 0, 0, 2, 8]),
        }
    }
}

pub struct Scheduler {
    pub spec: SchedSpec,
    pub rng: Rng,
    pub n: u64,
    prio: Vec<u64>,
    change_points: Vec<u64>,
    rr_next: usize,
    deviations_left: usize,
    pub tail_ptr: usize,
    pub in_tail: bool,
    pub idle_rounds: u32,
}

#[derive(Clone, Copy, Debug, PartialEq)]
enum Actor {
    Client,
    Env,
    Worker(usize),
    Backend,
}

pub enum Next {
    Do(Decision),
    /// nothing can happen any more
    Quiescent,
}

impl Scheduler {
    pub fn new(spec: SchedSpec, seed: u64, nworkers: usize, est_len: u64) -> Scheduler {
        let mut rng = Rng::new(seed);
        let mut prio: Vec<u64> = (0..(nworkers as u64 + 3)).collect();
        rng.shuffle(&mut prio);
        let mut change_points = Vec::new();
        let mut deviations_left = 0;
        match &spec.kind {
            SchedKind::Pct { d } => {
                for _ in 0..*d {
                    change_points.push(rng.below(est_len.max(1)));
                }
            }
            SchedKind::DelayBounded { k } => deviations_left = *k,
            _ => {}
        }
        Scheduler { spec, rng, n: 0, prio, change_points, rr_next: 0, deviations_left, tail_ptr: 0, in_tail: false, idle_rounds: 0 }
    }

    fn actors(nw: usize) -> Vec<Actor> {
        let mut v = vec![Actor::Client, Actor::Env];
        for i in 0..nw {
            v.push(Actor::Worker(i));
        }
        v.push(Actor::Backend);
        v
    }

    fn useful(a: Actor, view: &View, client: &Client) -> bool {
        match a {
            Actor::Client => client.idle_with_work() || (client.waiting() && !client.polled_since_env),
            Actor::Env => view.env_useful(),
            Actor::Worker(i) => view.worker_useful(i),
            Actor::Backend => view.backend_pending > 0,
        }
    }

    fn quantum(&mut self) -> usize {
        match self.spec.quantum {
            Quantum::Fixed(q) => q,
            Quantum::PerTurn => *self.rng.pick(&QUANTA),
        }
    }

    fn take(&mut self, pending: usize, one: bool) -> usize {
        if one {
            return 1;
        }
        if self.rng.below(100) < self.spec.take_all_pct {
            ALL
        } else {
            self.rng.usize(pending + 1)
        }
    }

    fn decision_for(&mut self, a: Actor, view: &View, one: bool) -> Decision {
        match a {
            Actor::Client => Decision::C,
            Actor::Env => {
                let take: Vec<usize> = view.evts.iter().map(|n| self.take(*n, one)).collect();
                Decision::E { take }
            }
            Actor::Worker(i) => {
                let take = self.take(view.cmds[i], one);
                let q = self.quantum();
                Decision::W { i, take, q }
            }
            Actor::Backend => Decision::B { k: self.rng.usize(view.backend_pending.max(1)) },
        }
    }

    /// The canonical fair fault-free tail: rotate over actors, step the next useful one with
    /// everything visible and the production quantum; advance the clock only when idle.
    pub fn tail_next(&mut self, world: &World, client: &Client) -> Next {
        let view = world.view();
        let actors = Self::actors(world.cfg.nworkers);
        let n = actors.len();
        for off in 0..n {
            let a = actors[(self.tail_ptr + off) % n];
            if Self::useful(a, &view, client) {
                self.tail_ptr = (self.tail_ptr + off + 1) % n;
                self.idle_rounds = 0;
                return Next::Do(match a {
                    Actor::Client => Decision::C,
                    Actor::Env => Decision::E { take: vec![] },
                    Actor::Worker(i) => Decision::W { i, take: ALL, q: 1000 },
                    Actor::Backend => Decision::B { k: 0 },
                });
            }
        }
        if let Some(d) = view.next_deadline {
            self.idle_rounds = 0;
            return Next::Do(Decision::T { dt: d.saturating_sub(view.tau).max(1) });
        }
        // Polling drivers step every actor forever; before declaring quiescence give every actor
        // one more (no-op) turn so that nothing depends on an idle step.
        if !world.cfg.event_driven && self.idle_rounds < 1 {
            let k = self.tail_ptr;
            self.tail_ptr += 1;
            if k + 1 >= n {
                self.tail_ptr = 0;
                self.idle_rounds += 1;
            }
            let a = actors[k % n];
            return Next::Do(match a {
                Actor::Client => Decision::C,
                Actor::Env => Decision::E { take: vec![] },
                Actor::Worker(i) => Decision::W { i, take: ALL, q: 1000 },
                Actor::Backend => Decision::B { k: 0 },
            });
        }
        Next::Quiescent
    }

    pub fn next(&mut self, world: &World, client: &Client) -> Next {
        self.n += 1;
        if self.in_tail || self.n > self.spec.fault_stop {
            if !self.in_tail {
                self.in_tail = true;
                self.tail_ptr = 0;
            }
            return self.tail_next(world, client);
        }
        let view = world.view();
        let actors = Self::actors(world.cfg.nworkers);
        let polling = !world.cfg.event_driven;
        let useful: Vec<bool> = actors.iter().map(|a| Self::useful(*a, &view, client)).collect();
        let any_useful = useful.iter().any(|u| *u);
        if !any_useful {
            // only time (or nothing) can move things
            if let Some(d) = view.next_deadline {
                let dt = d.saturating_sub(view.tau).max(1);
                // sometimes creep towards the deadline instead of jumping
                let dt = if self.spec.time_weight > 0 && self.rng.chance(1, 3) { 1 + self.rng.below(dt) } else { dt };
                return Next::Do(Decision::T { dt });
            }
            self.in_tail = true;
            return self.tail_next(world, client);
        }
        // spontaneous time decisions
        if self.spec.time_weight > 0 && self.rng.below(100 + self.spec.time_weight) >= 100 {
            if self.rng.below(100) < self.spec.jump_back_pct {
                return Next::Do(Decision::J { back: 1 + self.rng.below(self.spec.max_dt * 4) });
            }
            return Next::Do(Decision::T { dt: 1 + self.rng.below(self.spec.max_dt) });
        }
        if self.spec.observer_pct > 0 && self.rng.below(100) < self.spec.observer_pct {
            return Next::Do(Decision::N { k: self.rng.below(1 << 20) });
        }
        let kind = self.spec.kind.clone();
        let stalled = |a: Actor, n: u64| -> bool {
            if let SchedKind::Stall { actor, from, len } = &kind {
                let idx = match a {
                    Actor::Env | Actor::Client => 0,
                    Actor::Worker(i) => 1 + i,
                    Actor::Backend => usize::MAX,
                };
                idx == *actor && n >= *from && n < from + len
            } else {
                false
            }
        };
        let one = matches!(kind, SchedKind::OneAtATime);
        match kind {
            SchedKind::Pct { .. } => {
                if self.change_points.contains(&self.n) {
                    // demote the currently highest-priority useful actor
                    if let Some((idx, _)) = actors.iter().enumerate().filter(|(i, _)| useful[*i]).max_by_key(|(i, _)| self.prio[*i]) {
                        let min = *self.prio.iter().min().unwrap();
                        self.prio[idx] = min.saturating_sub(1);
                        for p in self.prio.iter_mut() {
                            *p += 1;
                        }
                    }
                }
                let (idx, _) = actors.iter().enumerate().filter(|(i, _)| useful[*i]).max_by_key(|(i, _)| self.prio[*i]).unwrap();
                let a = actors[idx];
                Next::Do(self.decision_for(a, &view, false))
            }
            SchedKind::DelayBounded { .. } => {
                let n = actors.len();
                let mut pick = None;
                for off in 0..n {
                    let i = (self.rr_next + off) % n;
                    if useful[i] {
                        pick = Some(i);
                        break;
                    }
                }
                let mut i = pick.unwrap();
                if self.deviations_left > 0 && self.rng.chance(1, 8) {
                    // deviate: pick another useful actor
                    let others: Vec<usize> = (0..n).filter(|j| useful[*j] && *j != i).collect();
                    if !others.is_empty() {
                        i = *self.rng.pick(&others);
                        self.deviations_left -= 1;
                    }
                }
                self.rr_next = (i + 1) % n;
                let a = actors[i];
                Next::Do(self.decision_for(a, &view, false))
            }
            _ => {
                let mut cands: Vec<(Actor, u64)> = Vec::new();
                for (i, a) in actors.iter().enumerate() {
                    if stalled(*a, self.n) {
                        continue;
                    }
                    let w = self.spec.actor_weights.get(i).copied().unwrap_or(100);
                    if useful[i] {
                        cands.push((*a, w));
                    } else if polling && self.spec.idle_weight > 0 && !matches!(a, Actor::Backend) {
                        cands.push((*a, self.spec.idle_weight));
                    }
                }
                if cands.is_empty() {
                    // everything useful is stalled: let time pass
                    return Next::Do(Decision::T { dt: 1 });
                }
                let total: u64 = cands.iter().map(|c| c.1).sum();
                let mut r = self.rng.below(total);
                let mut chosen = cands[0].0;
                for (a, w) in &cands {
                    if r < *w {
                        chosen = *a;
                        break;
                    }
                    r -= *w;
                }
                Next::Do(self.decision_for(chosen, &view, one))
            }
        }
    }
}
