//! Parallel runner: one child process per core, aggregation, known findings, evidence, exit code.

use crate::props::{CaseReport, FoundViolation, Property, ReplayFile, Tier, lookup, replay_file, run_case};
use std::collections::{BTreeMap, BTreeSet, HashSet};
use std::io::{BufRead, BufReader, Write};
use std::process::{Command, Stdio};

pub fn verif_dir() -> String {
    std::env::var("QSIM_VERIF_DIR").unwrap_or_else(|_| "/verif".to_string())
}

pub fn replay_dir() -> String {
    format!("{}/replays", verif_dir())
}

#[derive(Clone, Debug)]
pub struct Known {
    pub prop: String,
    pub key: String,
    pub what: String,
}

pub fn load_known() -> (Vec<Known>, Vec<String>) {
    let mut known = Vec::new();
    let mut fixed = Vec::new();
    let path = format!("{}/KNOWN_FINDINGS.txt", verif_dir());
    if let Ok(s) = std::fs::read_to_string(path) {
        for line in s.lines() {
            let line = line.trim();
            if let Some(rest) = line.strip_prefix("finding:") {
                let rest = rest.trim();
                let mut prop = String::new();
                let mut key = String::new();
                let mut what = Vec::new();
                for tok in rest.split_whitespace() {
                    if let Some(p) = tok.strip_prefix("property=") {
                        prop = p.to_string();
                    } else if let Some(k) = tok.strip_prefix("key=") {
                        key = k.to_string();
                    } else {
                        what.push(tok);
                    }
                }
                known.push(Known { prop, key, what: what.join(" ") });
            } else if line.starts_with("fixed:") {
                fixed.push(line.to_string());
            }
        }
    }
    (known, fixed)
}

pub fn child_main(prop_id: &str, tier: Tier, seed: u64, shard: usize, nshards: usize) {
    let prop = lookup(prop_id).expect("unknown property");
    let cases = std::env::var("QSIM_CASES").ok().and_then(|s| s.parse().ok()).unwrap_or_else(|| prop.cases(tier));
    let known: Vec<String> = load_known().0.into_iter().filter(|k| k.prop == prop_id).map(|k| k.key).collect();
    let out = std::io::stdout();
    let mut case = shard;
    while case < cases {
        {
            let mut o = out.lock();
            writeln!(o, "{{\"starting\":{case}}}").unwrap();
            o.flush().unwrap();
        }
        let rep = run_case(prop.as_ref(), seed, case as u64, tier, &replay_dir(), &known);
        let mut o = out.lock();
        writeln!(o, "{}", serde_json::to_string(&rep).unwrap()).unwrap();
        o.flush().unwrap();
        case += nshards;
    }
}

pub fn check_main(prop_id: &str, tier: Tier, seed: u64) -> i32 {
    let t0 = std::time::Instant::now();
    let Some(prop) = lookup(prop_id) else {
        eprintln!("unknown property {prop_id}");
        return 2;
    };
    let jobs: usize = std::env::var("VERIF_JOBS").ok().and_then(|s| s.parse().ok()).unwrap_or_else(|| std::thread::available_parallelism().map(|n| n.get()).unwrap_or(4));
    let exe = std::env::current_exe().expect("current_exe");
    let tier_s = if tier == Tier::Quick { "quick" } else { "thorough" };
    let mut children = Vec::new();
    for shard in 0..jobs {
        let mut c = Command::new(&exe)
            .args(["child", prop_id, tier_s, &seed.to_string(), &shard.to_string(), &jobs.to_string()])
            .stdout(Stdio::piped())
            .stderr(Stdio::inherit())
            .spawn()
            .expect("spawn child");
        let stdout = c.stdout.take().unwrap();
        let h = std::thread::spawn(move || {
            let mut reports: Vec<CaseReport> = Vec::new();
            let mut in_progress: Option<u64> = None;
            for line in BufReader::new(stdout).lines() {
                let Ok(line) = line else { break };
                if let Some(rest) = line.strip_prefix("{\"starting\":") {
                    in_progress = rest.trim_end_matches('}').parse().ok();
                    continue;
                }
                match serde_json::from_str::<CaseReport>(&line) {
                    Ok(r) => {
                        in_progress = None;
                        reports.push(r);
                    }
                    Err(e) => eprintln!("unparsable child line: {e}: {}", &line[..line.len().min(200)]),
                }
            }
            (reports, in_progress)
        });
        children.push((c, h));
    }
    let mut total = CaseReport::default();
    let mut nontrivial: HashSet<u64> = HashSet::new();
    let mut samples: Vec<serde_json::Value> = Vec::new();
    let mut found: Vec<FoundViolation> = Vec::new();
    let mut harness_error = false;
    let mut cases_done = 0u64;
    for (mut c, h) in children {
        let (reports, in_progress) = h.join().expect("reader thread");
        let status = c.wait().expect("wait child");
        for r in reports {
            cases_done += 1;
            total.runs += r.runs;
            total.inconclusive += r.inconclusive;
            total.sim_ms += r.sim_ms;
            total.steps += r.steps;
            total.msgs += r.msgs;
            for x in r.nontrivial {
                nontrivial.insert(x);
            }
            for (k, v) in r.counts {
                *total.counts.entry(k).or_insert(0) += v;
            }
            for (k, v) in r.probes {
                *total.probes.entry(k).or_insert(0) += v;
            }
            for (k, v) in r.families {
                *total.families.entry(k).or_insert(0) += v;
            }
            for (k, v) in r.known_hits {
                *total.known_hits.entry(k).or_insert(0) += v;
            }
            if let Some(s) = r.sample
                && samples.len() < 6
            {
                samples.push(s);
            }
            found.extend(r.violations);
        }
        if !status.success() {
            // abnormal child death (abort, stack overflow, OOM): attribute to the case in progress
            if let Some(case) = in_progress {
                let path = format!("{}/{}-crash-case{}.json", replay_dir(), prop_id, case);
                let _ = std::fs::create_dir_all(replay_dir());
                let _ = std::fs::write(&path, serde_json::json!({"kind": "case", "property": prop_id, "tier": tier_s, "seed": seed, "case": case, "status": format!("{status}")}).to_string());
                found.push(FoundViolation { prop: prop_id.to_string(), key: format!("{prop_id}/worker-or-env-crash/process-abort"), rule: "worker-or-env-crash".into(), detail: format!("child process died ({status}) while running case {case}"), replay: path });
            } else {
                eprintln!("HARNESS ERROR: child exited with {status} outside a case");
                harness_error = true;
            }
        }
    }

    // known findings
    let (known, fixed) = load_known();
    let known_keys: BTreeMap<String, &Known> = known.iter().filter(|k| k.prop == prop_id).map(|k| (k.key.clone(), k)).collect();
    let mut known_seen: BTreeSet<String> = BTreeSet::new();
    let mut pinned_notes = Vec::new();
    for p in prop.pinned() {
        if !known_keys.contains_key(p.key) {
            continue;
        }
        let r = crate::props::run_spec(prop.as_ref(), &p.scenario, p.spec.clone(), false);
        let vs = crate::props::all_violations(prop.as_ref(), &p.scenario, None, &r);
        total.runs += 1;
        if vs.iter().any(|v| v.key == p.key) {
            known_seen.insert(p.key.to_string());
            pinned_notes.push(format!("pinned reproduction of {} reproduces", p.key));
        } else {
            pinned_notes.push(format!("pinned reproduction of {} no longer reproduces (repaired?)", p.key));
        }
    }
    let mut violations: BTreeMap<String, FoundViolation> = BTreeMap::new();
    for f in found {
        if f.prop == "HARNESS" {
            eprintln!("HARNESS ERROR: {} :: {} (replay {})", f.key, f.detail.chars().take(300).collect::<String>(), f.replay);
            harness_error = true;
            continue;
        }
        if known_keys.contains_key(&f.key) {
            known_seen.insert(f.key.clone());
        } else {
            violations.entry(f.key.clone()).or_insert(f);
        }
    }
    for k in &known_seen {
        let kn = known_keys[k];
        println!("KNOWN-FINDING: property={} {} [{}]", prop_id, kn.what, kn.key);
    }
    for f in violations.values() {
        println!("VIOLATION property={} replay={}", prop_id, f.replay);
        println!("  key={} :: {}", f.key, f.detail.chars().take(400).collect::<String>());
    }

    // blind-spot guard
    let mut blind = Vec::new();
    for p in prop.required_probes() {
        if total.probes.get(p).copied().unwrap_or(0) == 0 && total.counts.get(p).copied().unwrap_or(0) == 0 {
            blind.push(p.to_string());
        }
    }
    let wall = t0.elapsed().as_secs_f64();
    let fault_kinds: BTreeMap<String, u64> = total
        .counts
        .iter()
        .filter(|(k, _)| k.starts_with("fault_") || ["partial_visibility_cmd", "partial_visibility_evt", "clock_step_back", "backend_reordered", "json_messages", "time_advance"].contains(&k.as_str()))
        .map(|(k, v)| (k.clone(), *v))
        .collect();
    let evidence = serde_json::json!({
        "property_id": prop_id,
        "tier": tier_s,
        "seed": seed,
        "level": "exploration",
        "coverage": {
            "evaluations": total.runs,
            "distinct_nontrivial": nontrivial.len(),
            "rule": prop.rule_text(),
            "samples": samples,
            "scenarios": cases_done,
            "inconclusive_runs_step_cap": total.inconclusive,
            "decisions_total": total.steps,
            "messages_total": total.msgs,
            "simulated_ms_total": total.sim_ms,
            "runs_per_hour": if wall > 0.0 { (total.runs as f64 / wall * 3600.0) as u64 } else { 0 },
            "scenario_seeds_per_hour": if wall > 0.0 { (cases_done as f64 / wall * 3600.0) as u64 } else { 0 },
            "faults_and_perturbations_fired": fault_kinds,
            "decision_counts": total.counts,
            "probes": total.probes,
            "scenario_families": total.families,
            "blind_probes": blind,
            "real_vs_stub": prop.real_vs_stub(),
            "known_findings_seen": known_seen.iter().cloned().collect::<Vec<_>>(),
            "known_finding_hits": total.known_hits,
            "pinned": pinned_notes,
            "fixed_entries": fixed,
            "jobs": jobs,
        },
        "assumptions": [
            "transport is reliable and per-channel FIFO (as mpsc/postMessage): loss, duplication and in-channel reordering are not injected",
            "worker and environment turns are atomic; real-thread interleavings are covered through prefix visibility of queued messages at each turn",
            "scenarios are drawn from this property's template families, not from all programs",
            "a clean batch is evidence, not proof: schedules, configurations and scenarios are sampled"
        ],
        "wall_s": wall,
        "violations": violations.len(),
    });
    let _ = std::fs::create_dir_all(format!("{}/evidence", verif_dir()));
    let path = format!("{}/evidence/{prop_id}.json", verif_dir());
    std::fs::write(&path, serde_json::to_string_pretty(&evidence).unwrap()).expect("write evidence");
    println!(
        "{prop_id} {tier_s}: {} runs over {} scenarios, {} distinct non-trivial interleavings, {} inconclusive, {:.1}s; {} violation key(s), {} known finding(s)",
        total.runs,
        cases_done,
        nontrivial.len(),
        total.inconclusive,
        wall,
        violations.len(),
        known_seen.len()
    );
    if harness_error {
        return 2;
    }
    if !violations.is_empty() {
        return 1;
    }
    if !blind.is_empty() {
        eprintln!("HARNESS ERROR: probes stuck at zero (check would be blind): {:?}", blind);
        return 2;
    }
    0
}

pub fn replay_main(path: &str) -> i32 {
    let Ok(s) = std::fs::read_to_string(path) else {
        eprintln!("cannot read {path}");
        return 2;
    };
    let v: serde_json::Value = match serde_json::from_str(&s) {
        Ok(v) => v,
        Err(e) => {
            eprintln!("bad replay file: {e}");
            return 2;
        }
    };
    if v.get("kind").and_then(|k| k.as_str()) == Some("case") {
        let prop_id = v["property"].as_str().unwrap_or("");
        let tier = if v["tier"].as_str() == Some("thorough") { Tier::Thorough } else { Tier::Quick };
        let seed = v["seed"].as_u64().unwrap_or(1);
        let case = v["case"].as_u64().unwrap_or(0);
        let Some(prop) = lookup(prop_id) else { return 2 };
        let known: Vec<String> = load_known().0.into_iter().filter(|k| k.prop == prop_id).map(|k| k.key).collect();
        let rep = run_case(prop.as_ref(), seed, case, tier, &replay_dir(), &known);
        if rep.violations.is_empty() {
            println!("case completed without violation (the recorded failure was a process abort)");
            return 2;
        }
        for f in rep.violations {
            println!("VIOLATION property={} replay={}", prop_id, f.replay);
        }
        return 1;
    }
    let file: ReplayFile = match serde_json::from_value(v) {
        Ok(f) => f,
        Err(e) => {
            eprintln!("bad replay file: {e}");
            return 2;
        }
    };
    let Some(prop) = lookup(&file.property) else { return 2 };
    let o = replay_file(prop.as_ref(), &file, true);
    if let Some(log) = &o.result.log {
        for l in log.iter().rev().take(60).rev() {
            println!("{l}");
        }
    }
    println!("source:");
    for s in &file.source {
        println!("  {s}");
    }
    println!("config: workers={} json={} event_driven={} decisions={}", file.spec.cfg.nworkers, file.spec.cfg.json, file.spec.cfg.event_driven, file.spec.replay.as_ref().map(|r| r.len()).unwrap_or(0));
    println!("end={:?} outs={:?}", o.result.end, o.result.outs);
    for v in &o.found {
        println!("found: {} :: {}", v.key, v.detail);
    }
    if o.reproduced && o.same_hash {
        println!("VIOLATION property={} replay={}", file.property, path);
        println!("reproduced exactly: key={} log_hash={:016x}", file.key, file.log_hash);
        1
    } else {
        println!("REPLAY MISMATCH: reproduced={} same_hash={} (expected key {}, hash {:016x}, got {:016x})", o.reproduced, o.same_hash, file.key, file.log_hash, o.result.log_hash);
        2
    }
}


/// Determinism self-test: every case of every property is executed twice, in different child
/// processes under different shardings; the per-run event-log hashes must be identical.
pub fn selftest_determinism(tier: Tier, seed: u64) -> i32 {
    let exe = std::env::current_exe().expect("current_exe");
    let tier_s = if tier == Tier::Quick { "quick" } else { "thorough" };
    let props = ["C03", "C04", "C05", "C06", "C10", "C11", "C13", "C14", "C15"];
    let mut bad = 0u64;
    let mut total = 0u64;
    for prop in props {
        let ncases: usize = if tier == Tier::Quick { 48 } else { 480 };
        let mut maps: Vec<BTreeMap<u64, Vec<u64>>> = Vec::new();
        for shards in [16usize, 5usize] {
            let mut handles = Vec::new();
            for shard in 0..shards {
                let c = Command::new(&exe)
                    .args(["child", prop, tier_s, &seed.to_string(), &shard.to_string(), &shards.to_string()])
                    .env("QSIM_CASES", ncases.to_string())
                    .stdout(Stdio::piped())
                    .stderr(Stdio::null())
                    .spawn()
                    .expect("spawn child");
                handles.push(c);
            }
            let mut m: BTreeMap<u64, Vec<u64>> = BTreeMap::new();
            for mut c in handles {
                let out = c.stdout.take().unwrap();
                for line in BufReader::new(out).lines().map_while(Result::ok) {
                    if let Ok(r) = serde_json::from_str::<CaseReport>(&line) {
                        m.insert(r.case, r.run_hashes);
                    }
                }
                let _ = c.wait();
            }
            maps.push(m);
        }
        let (a, b) = (&maps[0], &maps[1]);
        let mut prop_bad = 0;
        for (case, ha) in a {
            total += ha.len() as u64;
            match b.get(case) {
                Some(hb) if hb == ha => {}
                other => {
                    prop_bad += 1;
                    if prop_bad <= 3 {
                        eprintln!("NONDETERMINISM: {prop} case {case}: {} vs {:?} runs", ha.len(), other.map(|x| x.len()));
                    }
                }
            }
        }
        if a.len() != b.len() {
            prop_bad += 1;
        }
        println!("{prop}: {} cases, {} runs hashed twice (16 vs 5 processes): {} mismatching case(s)", a.len(), a.values().map(|v| v.len()).sum::<usize>(), prop_bad);
        bad += prop_bad;
    }
    println!("determinism self-test: {total} runs compared, {bad} mismatching case(s)");
    if bad > 0 { 2 } else { 0 }
}
