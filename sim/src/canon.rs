//! Canonical, placement-independent rendering of runtime values: pids become spawn-tree paths,
//! refs are numbered by first appearance, binaries are rendered by content, tuples by
//! (name, labels).

use crate::transport::E;
use quiver_core::bytecode::Constant;
use quiver_core::executor::Executor;
use quiver_core::program::Program;
use quiver_core::value::{Binary, Value};
use std::collections::BTreeMap;

pub enum BinSrc<'a> {
    /// value was extracted: Heap(i) indexes this vector
    Extracted(&'a [Vec<u8>]),
    /// value lives in an executor
    Exec(&'a Executor<E>),
}

#[derive(Default, Clone)]
pub struct Names {
    /// pid -> spawn-tree path ("R0", "R0/1", ...)
    pub pids: BTreeMap<usize, String>,
    pub refs: BTreeMap<u64, usize>,
    /// render function indices (false when comparing across differently packaged programs)
    pub fn_ids: bool,
}

pub fn hex(b: &[u8]) -> String {
    let mut s = String::with_capacity(b.len() * 2);
    for x in b {
        s.push_str(&format!("{:02x}", x));
    }
    s
}

pub fn canon(v: &Value, bins: &BinSrc, program: &Program, names: &mut Names) -> String {
    match v {
        Value::Integer(i) => format!("{}", i),
        Value::Binary(b) => {
            let bytes: Option<Vec<u8>> = match b {
                Binary::Constant(i) => match program.get_constant(*i) {
                    Some(Constant::Binary(bytes)) => Some(bytes.clone()),
                    _ => None,
                },
                Binary::Heap(i) => match bins {
                    BinSrc::Extracted(h) => h.get(*i).cloned(),
                    BinSrc::Exec(ex) => ex.get_heap_binary(*i).map(|d| d.to_vec()),
                },
            };
            match bytes {
                Some(b) => format!("0x{}", hex(&b)),
                None => format!("<dangling-binary {:?}>", b),
            }
        }
        Value::Reference(r) => {
            let n = names.refs.len();
            let id = *names.refs.entry(*r).or_insert(n);
            format!("ref#{}", id)
        }
        Value::Tuple(id, fields) => {
            let info = program.get_tuples().get(*id);
            let mut s = String::new();
            if let Some(info) = info {
                if let Some(n) = &info.name {
                    s.push_str(n);
                }
            } else {
                s.push_str(&format!("<tuple?{}>", id));
            }
            if fields.is_empty() && !s.is_empty() {
                return s;
            }
            s.push('[');
            for (i, f) in fields.iter().enumerate() {
                if i > 0 {
                    s.push_str(", ");
                }
                if let Some(info) = info
                    && let Some((Some(label), _)) = info.fields.get(i)
                {
                    s.push_str(label);
                    s.push_str(": ");
                }
                s.push_str(&canon(f, bins, program, names));
            }
            s.push(']');
            s
        }
        Value::Function(idx, caps) => {
            let mut s = if names.fn_ids { format!("#fn{}", idx) } else { "#fn".to_string() };
            if !caps.is_empty() {
                s.push('{');
                for (i, c) in caps.iter().enumerate() {
                    if i > 0 {
                        s.push_str(", ");
                    }
                    s.push_str(&canon(c, bins, program, names));
                }
                s.push('}');
            }
            s
        }
        Value::Builtin(i) => match program.get_builtins().get(*i) {
            Some(b) => format!("<{}>", b.name),
            None => format!("<builtin?{}>", i),
        },
        Value::Process(pid, _) => match names.pids.get(pid) {
            Some(p) => format!("@{}", p),
            None => format!("@?{}", pid),
        },
        Value::Resource(rid, _) => format!("\\res{}", rid),
    }
}

pub fn canon_result(
    r: &Result<Value, quiver_core::error::Error>,
    bins: &BinSrc,
    program: &Program,
    names: &mut Names,
) -> String {
    match r {
        Ok(v) => canon(v, bins, program, names),
        Err(e) => format!("ERR({:?})", e),
    }
}
