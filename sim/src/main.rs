mod backend;
mod canon;
mod client;
mod detrand;
mod rng;
mod run;
mod sched;
mod transport;
mod world;

use client::ClientOp;
use run::{NoMonitor, RunSpec};
use sched::SchedSpec;
use world::RunCfg;

fn main() {
    std::panic::set_hook(Box::new(|_| {}));
    let args: Vec<String> = std::env::args().collect();
    match args.get(1).map(|s| s.as_str()) {
        Some("smoke") => {
            let src = args.get(2).cloned().unwrap_or_else(|| "p = @{ 42 }, !p".to_string());
            let seed: u64 = args.get(3).and_then(|s| s.parse().ok()).unwrap_or(1);
            let nworkers: usize = args.get(4).and_then(|s| s.parse().ok()).unwrap_or(2);
            let mut rng = rng::Rng::new(seed);
            let mut cfg = RunCfg::reference();
            cfg.nworkers = nworkers;
            cfg.clock_offsets = vec![0; nworkers];
            let ops: Vec<ClientOp> = src.split(";;").map(|l| ClientOp::Line { session: 0, src: l.to_string() }).collect();
            let sched = if seed == 0 { SchedSpec::fair() } else { SchedSpec::draw(&mut rng, nworkers, true, 200) };
            let spec = RunSpec { cfg, ops, modules: vec![], sched, seed, replay: None, est_len: 200, tail_bound: 0 };
            let (r, _) = run::execute_isolated(spec, NoMonitor, true, seed);
            for l in r.log.as_ref().unwrap() {
                println!("{l}");
            }
            println!("end={:?} steps={} outs={:?}\nprocs={:?}\nfailure={:?} hash={:x}", r.end, r.steps, r.outs, r.procs, r.failure, r.log_hash);
        }
        _ => eprintln!("usage: qsim smoke <src> [seed] [workers]"),
    }
}
