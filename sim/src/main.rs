mod backend;
mod canon;
mod client;
mod detrand;
mod props;
mod rng;
mod run;
mod runner;
mod sched;
mod transport;
mod world;

use client::ClientOp;
use props::Tier;
use run::{NoMonitor, RunSpec};
use sched::SchedSpec;
use world::RunCfg;

fn seed_from_env() -> u64 {
    std::env::var("VERIF_SEED").ok().and_then(|s| s.parse().ok()).unwrap_or(1)
}

fn tier_of(s: Option<&String>) -> Tier {
    let t = s.cloned().or_else(|| std::env::var("VERIF_TIER").ok()).unwrap_or_else(|| "quick".into());
    if t == "thorough" { Tier::Thorough } else { Tier::Quick }
}

fn main() {
    std::panic::set_hook(Box::new(|_| {}));
    let args: Vec<String> = std::env::args().collect();
    let code = match args.get(1).map(|s| s.as_str()) {
        Some("check") => {
            let prop = args.get(2).expect("property id");
            runner::check_main(prop, tier_of(args.get(3)), seed_from_env())
        }
        Some("child") => {
            let prop = args.get(2).expect("property id");
            let tier = tier_of(args.get(3));
            let seed: u64 = args[4].parse().unwrap();
            let shard: usize = args[5].parse().unwrap();
            let nshards: usize = args[6].parse().unwrap();
            runner::child_main(prop, tier, seed, shard, nshards);
            0
        }
        Some("selftest") => match args.get(2).map(|s| s.as_str()) {
            Some("determinism") => runner::selftest_determinism(tier_of(args.get(3)), seed_from_env()),
            _ => {
                eprintln!("usage: qsim selftest determinism [quick|thorough]");
                2
            }
        },
        Some("replay") => runner::replay_main(args.get(2).expect("replay file")),
        Some("smoke") => {
            let src = args.get(2).cloned().unwrap_or_else(|| "p = @{ 42 }, !p".to_string());
            let seed: u64 = args.get(3).and_then(|s| s.parse().ok()).unwrap_or(1);
            let nworkers: usize = args.get(4).and_then(|s| s.parse().ok()).unwrap_or(2);
            let mut rng = rng::Rng::new(seed);
            let mut cfg = RunCfg::reference();
            cfg.nworkers = nworkers;
            cfg.clock_offsets = vec![0; nworkers];
            // lines separated by `;;`; a line starting with `1>` goes to a second session, `run>` is a run-path program
            let ops: Vec<ClientOp> = src
                .split(";;")
                .map(|l| {
                    if let Some(r) = l.strip_prefix("1>") {
                        ClientOp::Line { session: 1, src: r.to_string() }
                    } else if let Some(r) = l.strip_prefix("runs>") {
                        ClientOp::Run { src: r.to_string(), shake: true, json: true, wait: true }
                    } else if let Some(r) = l.strip_prefix("run>") {
                        ClientOp::Run { src: r.to_string(), shake: false, json: false, wait: true }
                    } else {
                        ClientOp::Line { session: 0, src: l.to_string() }
                    }
                })
                .collect();
            let sched = if seed == 0 { SchedSpec::fair() } else { SchedSpec::draw(&mut rng, nworkers, true, 200) };
            let spec = RunSpec { cfg, ops, modules: vec![], sched, seed, replay: None, est_len: 200, tail_bound: 0, tail_from: None };
            let (r, _) = run::execute_isolated(spec, NoMonitor, true, seed);
            if std::env::var("QSIM_LOG").is_ok() {
                for l in r.log.as_ref().unwrap() {
                    println!("{l}");
                }
            }
            println!("end={:?} steps={} outs={:?}\nprocs={:?}\nfailure={:?} hash={:x}", r.end, r.steps, r.outs, r.procs, r.failure, r.log_hash);
            0
        }
        _ => {
            eprintln!("usage: qsim check <PROP> [quick|thorough] | replay <file> | smoke <src> [seed] [workers]");
            2
        }
    };
    std::process::exit(code);
}
